import Fips204.Lemmas.HintRoundTrip
/-! `sig_encode ∘ sig_decode = id`: every signature byte string the decoder accepts is reproduced byte for byte by the
    encoder from the decoded (c~, z, h) - signature encodings are canonical (strong unforgeability at the byte level). -/
namespace Fips204.Impl
open Fips204 Fips204.Gen Fips204.K

theorem unpackMany_repack (m : Mode) (site : String) (bytes : List Nat) (hb : ∀ x ∈ bytes, x < 256) (start : Nat) (a b : Int) (bl : Nat)
    (ha : 0 ≤ a ∧ a < 1048576) (hbb : 1 ≤ b ∧ b < 1048576) (hbl : bitLen m (a + b) = .ok bl) (hbl2 : 1 ≤ bl ∧ bl ≤ 20)
    (hab : a + b < 2 ^ bl) :
    ∀ (is : List Nat) (acc z : List Poly), (∀ i ∈ is, start + (i + 1) * (32 * bl) ≤ bytes.length) →
      unpackMany m site bytes start (32 * bl) a b is acc = .ok (some z) →
      ∃ zNew, z = acc.reverse ++ zNew ∧ zNew.length = is.length ∧
        zNew.mapM (fun x => bitPack m x a b (32 * bl)) = .ok (is.map (fun i => (bytes.drop (start + i * (32 * bl))).take (32 * bl))) := by
  intro is
  induction is with
  | nil =>
    intro acc z _ h
    simp only [unpackMany, pure_eq] at h
    have := ok_inj h
    simp only [Option.some.injEq] at this
    exact ⟨[], by simp [this], rfl, by simp [pure_eq]⟩
  | cons i is ih =>
    intro acc z hlen h
    have hi := hlen i (List.mem_cons_self ..)
    have e1 : start + (i + 1) * (32 * bl) = start + i * (32 * bl) + 32 * bl := by rw [Nat.add_mul, Nat.one_mul]; omega
    have hs := slice_ok site bytes (start + i * (32 * bl)) (start + (i + 1) * (32 * bl)) (by constructor <;> omega)
    have e2 : start + (i + 1) * (32 * bl) - (start + i * (32 * bl)) = 32 * bl := by omega
    rw [e2] at hs
    have hsl : ((bytes.drop (start + i * (32 * bl))).take (32 * bl)).length = 32 * bl := by
      rw [List.length_take, List.length_drop]; omega
    unfold unpackMany at h
    rw [hs, ok_bind] at h
    obtain ⟨r, hr, h⟩ := bind_ok_inv h
    cases r with
    | none => rw [pure_eq] at h; have := ok_inj h; simp at this
    | some t =>
      replace h : unpackMany m site bytes start (32 * bl) a b is (t :: acc) = .ok (some z) := h
      obtain ⟨zNew, f1, f2, f3⟩ := ih (t :: acc) z (fun j hj => hlen j (List.mem_cons_of_mem _ hj)) h
      have hp := bitPack_bitUnpack m _ a b bl ha hbb hbl hbl2 hab (fun x hx => hb x (mem_slice _ _ _ _ hx)) hsl t hr
      refine ⟨t :: zNew, by rw [f1]; simp, by simp [f2], ?_⟩
      rw [List.mapM_cons, hp, ok_bind, f3, ok_bind, pure_eq]
      rfl

theorem flatten_slices (bytes : List Nat) (start step : Nat) : ∀ l : Nat, start + l * step ≤ bytes.length →
    ((List.range l).map (fun i => (bytes.drop (start + i * step)).take step)).flatten = (bytes.drop start).take (l * step) := by
  intro l
  induction l with
  | zero => intro _; simp
  | succ l ih =>
    intro h
    have h' : start + l * step ≤ bytes.length := by rw [Nat.add_mul, Nat.one_mul] at h; omega
    rw [List.range_succ, List.map_append, List.flatten_append, ih h', Nat.add_mul, Nat.one_mul, List.take_add, List.drop_drop]
    simp

/-- **`sig_encode ∘ sig_decode = id`** for the three parameter sets -/
theorem sigEncode_sigDecode (m : Mode) (p : ParamSet) (blz : Nat) (cfg : SigCfg p blz) (sigma : List Nat) (hb : ∀ x ∈ sigma, x < 256)
    (hlen : sigma.length = p.sigLen) (ct : List Nat) (z h : List Poly) (hdec : sigDecode m p sigma = .ok (some (ct, z, h))) :
    sigEncode m false p ct z h = .ok sigma := by
  obtain ⟨r0, hr0, hprops⟩ := sigDecode_ok m p blz cfg sigma hb hlen
  rw [hdec] at hr0
  obtain ⟨c1, c2, c3, c4, c5⟩ := hprops ct z h (ok_inj hr0).symm
  obtain ⟨b17, b18, b19, b20⟩ := bitLen_g1 m
  have hbl : ∃ bl0, bitLen m (p.gamma1 - 1) = .ok bl0 ∧ bl0 + 1 = blz ∧ bitLen m (p.gamma1 - 1 + p.gamma1) = .ok blz ∧
      p.gamma1 - 1 + p.gamma1 + 1 = 2 ^ blz ∧ 1 ≤ blz ∧ blz ≤ 20 ∧ 1 ≤ p.gamma1 ∧ p.gamma1 < 1048576 := by
    rcases cfg.g1 with ⟨hg, rfl⟩ | ⟨hg, rfl⟩
    · rw [hg]; exact ⟨17, b17, rfl, b18, by decide, by omega, by omega, by omega, by omega⟩
    · rw [hg]; exact ⟨19, b19, rfl, b20, by decide, by omega, by omega, by omega, by omega⟩
  obtain ⟨bl0, h0, hbz, h1, hpow, hz1, hz2, hg1, hg2⟩ := hbl
  have hlen' := cfg.len
  have hom := cfg.om
  have hsl : sigLenOk m p = .ok true := by
    unfold sigLenOk
    rw [arith_i32 _ _ _ (by omega) (by omega), ok_bind, h0, ok_bind, pure_eq]
    congr 1
    have e : (absI p.omega).toNat = p.omega.toNat := by rw [absI_eq, if_neg (by omega)]
    rw [e, hlen']
    simp only [beq_iff_eq]
    have : p.l * 32 * (1 + bl0) = p.l * (32 * blz) := by rw [← hbz, Nat.mul_assoc, Nat.add_comm]
    omega
  -- invert the decoder
  unfold sigDecode at hdec
  have hc := slice_ok "encodings.rs:sig_decode:sigma[0..LAMBDA_DIV4]" sigma 0 p.lambdaDiv4 (by omega)
  rw [dassertM_ok m _ _ hsl, ok_bind, hc, ok_bind, arith_i32 _ _ _ (by omega) (by omega), ok_bind, h0, ok_bind, hbz] at hdec
  obtain ⟨rz, hrz, hdec⟩ := bind_ok_inv hdec
  cases rz with
  | none => rw [pure_eq] at hdec; have := ok_inj hdec; simp at this
  | some z' =>
    simp only [] at hdec
    have hs2 := slice_ok "encodings.rs:sig_decode:sigma[start..]" sigma (p.lambdaDiv4 + p.l * (32 * blz)) sigma.length (by omega)
    rw [hs2, ok_bind] at hdec
    obtain ⟨rh, hrh, hdec⟩ := bind_ok_inv hdec
    cases rh with
    | none => rw [pure_eq] at hdec; have := ok_inj hdec; simp at this
    | some h' =>
      rw [pure_eq] at hdec
      have := ok_inj hdec
      simp only [Option.some.injEq, Prod.mk.injEq] at this
      obtain ⟨rfl, rfl, rfl⟩ := this
      obtain ⟨zNew, f1, f2, f3⟩ := unpackMany_repack m "encodings.rs:sig_decode:z" sigma hb p.lambdaDiv4 (p.gamma1 - 1) p.gamma1 blz
        (by omega) (by omega) h1 (by omega) (by omega) (List.range p.l) [] z'
        (fun i hi => by
          have := List.mem_range.mp hi
          have : (i + 1) * (32 * blz) ≤ p.l * (32 * blz) := Nat.mul_le_mul_right _ (by omega)
          omega) hrz
      simp only [List.reverse_nil, List.nil_append] at f1
      subst f1
      have hylen : ((sigma.drop (p.lambdaDiv4 + p.l * (32 * blz))).take (sigma.length - (p.lambdaDiv4 + p.l * (32 * blz)))).length = p.omega.toNat + p.k := by
        rw [List.length_take, List.length_drop]; omega
      have hh := hintBitPack_hintBitUnpack m p.k p.omega _ (fun x hx => hb x (mem_slice _ _ _ _ hx)) hom cfg.omk hylen h' hrh
      -- run the encoder
      unfold sigEncode
      rw [arith_i32 _ _ _ (by omega) (by omega), ok_bind]
      obtain ⟨bs1, hbs1, _, hbt1⟩ := mapM_ok_len (fun x => isInRange m x (p.gamma1 - 1) p.gamma1) (fun r => r ∈ z') (fun b => b = true)
        (fun r hr' => ⟨true, isInRange_true m r (p.gamma1 - 1) p.gamma1 (by omega) (c3 r hr').2, rfl⟩) z' (fun a ha => ha)
      have hall1 : bs1.all id = true := by rw [List.all_eq_true]; intro b hb'; exact hbt1 b hb'
      obtain ⟨bs2, hbs2, _, hbt2⟩ := mapM_ok_len (fun x => isInRange m x 0 1) (fun r => r ∈ h') (fun b => b = true)
        (fun r hr' => ⟨true, isInRange_true m r 0 1 (by omega) (fun c hc => by
          rcases (c5 r hr').2 c hc with h0 | h1 <;> omega), rfl⟩) h' (fun a ha => ha)
      have hall2 : bs2.all id = true := by rw [List.all_eq_true]; intro b hb'; exact hbt2 b hb'
      simp only [hbs1, hbs2, ok_bind, pure_eq, hall1, hall2, dassertM_true, dassertM_ok m _ _ hsl]
      rw [if_neg (by rw [c1]; exact fun h => h rfl), h0, ok_bind]
      have hstep : 32 * (1 + bl0) = 32 * blz := by rw [← hbz, Nat.add_comm]
      simp only [hstep]
      rw [List.take_of_length_le (by omega), f3, ok_bind, if_neg (by omega)]
      have hrest : p.sigLen - (p.lambdaDiv4 + p.l * (32 * blz)) = p.omega.toNat + p.k := by omega
      rw [hrest, hh, ok_bind, flatten_slices sigma p.lambdaDiv4 (32 * blz) p.l (by omega)]
      congr 1
      have e0 : p.lambdaDiv4 - 0 = p.lambdaDiv4 := by omega
      rw [List.drop_zero, e0, List.take_of_length_le (l := sigma.drop (p.lambdaDiv4 + p.l * (32 * blz))) (by rw [List.length_drop]; omega)]
      rw [List.append_assoc]
      have e1 : (sigma.drop p.lambdaDiv4).take (p.l * (32 * blz)) ++ sigma.drop (p.lambdaDiv4 + p.l * (32 * blz)) = sigma.drop p.lambdaDiv4 := by
        rw [← List.drop_drop, List.take_append_drop]
      rw [e1, List.take_append_drop]

end Fips204.Impl
