import Fips204.Lemmas.HintDecodeEncode
import Fips204.Lemmas.GenKeys
/-! `sig_decode ∘ sig_encode = id` on every in-range `(c~, z, h)`: Algorithm 27 accepts what Algorithm 26 writes and
    returns what was encoded. -/
namespace Fips204.Impl
open Fips204 Fips204.Gen Fips204.K

/-- what `sig_encode` returns on an in-range response and a 0/1 hint with at most omega ones: a string of signature length,
    of bytes, that `sig_decode` maps back to what was encoded -/
theorem sigEncode_facts (m : Mode) (p : ParamSet) (blz : Nat) (cfg : SigCfg p blz) (ct : List Nat) (z h : List Poly)
    (hct : ct.length = p.lambdaDiv4) (hz : Sh p.l z) (hzr : ∀ q ∈ z, ∀ c ∈ q, -(p.gamma1 - 1) ≤ c ∧ c ≤ p.gamma1)
    (hh : Sh p.k h) (hb : ∀ q ∈ h, Bin q) (hsum : onesAll h ≤ p.omega.toNat) (sig : List Nat)
    (henc : sigEncode m false p ct z h = .ok sig) :
    sig.length = p.sigLen ∧ ((∀ b ∈ ct, b < 256) → ∀ b ∈ sig, b < 256) ∧ sigDecode m p sig = .ok (some (ct, z, h)) := by
  obtain ⟨bl0, h0, hbz, h1, hpow, hz1, hz2, hg1, hg2, _⟩ := gamma1_facts m p blz cfg
  have hlen' := cfg.len
  have hom := cfg.om
  have hsl : sigLenOk m p = .ok true := by
    unfold sigLenOk
    rw [arith_i32 _ _ _ (by omega) (by omega), ok_bind, h0, ok_bind, pure_eq]
    congr 1
    have e : (absI p.omega).toNat = p.omega.toNat := by rw [absI_eq, if_neg (by omega)]
    rw [e, hlen']
    simp only [beq_iff_eq]
    have : p.l * 32 * (1 + bl0) = p.l * (32 * blz) := by rw [← hbz, Nat.mul_assoc, Nat.add_comm]
    omega
  unfold sigEncode at henc
  rw [arith_i32 _ _ _ (by omega) (by omega), ok_bind] at henc
  obtain ⟨bs1, hbs1, _, hbt1⟩ := mapM_ok_len (fun x => isInRange m x (p.gamma1 - 1) p.gamma1) (fun r => r ∈ z) (fun b => b = true)
    (fun r hr' => ⟨true, isInRange_true m r (p.gamma1 - 1) p.gamma1 (by omega) (hzr r hr'), rfl⟩) z (fun a ha => ha)
  have hall1 : bs1.all id = true := by rw [List.all_eq_true]; intro b hb'; exact hbt1 b hb'
  obtain ⟨bs2, hbs2, _, hbt2⟩ := mapM_ok_len (fun x => isInRange m x 0 1) (fun r => r ∈ h) (fun b => b = true)
    (fun r hr' => ⟨true, isInRange_true m r 0 1 (by omega) (fun c hc => by
      rcases (hb r hr').2 c hc with h0 | h1 <;> omega), rfl⟩) h (fun a ha => ha)
  have hall2 : bs2.all id = true := by rw [List.all_eq_true]; intro b hb'; exact hbt2 b hb'
  simp only [hbs1, hbs2, ok_bind, pure_eq, hall1, hall2, dassertM_true, dassertM_ok m _ _ hsl] at henc
  rw [if_neg (by rw [hct]; exact fun h => h rfl), h0, ok_bind] at henc
  have hstep : 32 * (1 + bl0) = 32 * blz := by rw [← hbz, Nat.add_comm]
  simp only [hstep] at henc
  obtain ⟨zs, hzs, henc⟩ := bind_ok_inv henc
  rw [if_neg (by omega)] at henc
  have hrest : p.sigLen - (p.lambdaDiv4 + p.l * (32 * blz)) = p.omega.toNat + p.k := by omega
  rw [hrest] at henc
  obtain ⟨hs, hhs, henc⟩ := bind_ok_inv henc
  have hsig := (ok_inj henc).symm
  have htake : z.take p.l = z := List.take_of_length_le (by rw [hz.1]; exact Nat.le_refl _)
  rw [htake] at hzs
  -- the pieces
  have hzsl := mapM_len _ _ _ hzs
  have hcL : ∀ c ∈ zs, c.length = 32 * blz := by
    intro c hc
    obtain ⟨j, hj, rfl⟩ := List.mem_iff_getElem.mp hc
    have hjz : j < z.length := by rw [← hzsl]; exact hj
    obtain ⟨v, hv, hvl, _, _⟩ := bitUnpack_bitPack m z[j] (p.gamma1 - 1) p.gamma1 blz (by omega) (by omega) h1 ⟨hz1, hz2⟩ (by omega)
      (hzr _ (List.getElem_mem _)) (hz.2 _ (List.getElem_mem _))
    have := mapM_get _ z zs hzs j hjz hj
    rw [hv] at this
    rw [← ok_inj this]; exact hvl
  have hfl := flatten_len (32 * blz) zs hcL
  have hun := section_unpack m "encodings.rs:sig_decode:z" sig ct hs zs (p.gamma1 - 1) p.gamma1 blz z hsig (by omega) (by omega) h1 ⟨hz1, hz2⟩
    (by omega) (fun q hq => ⟨hz.2 q hq, hzr q hq⟩) hzs
  rw [hz.1, hct] at hun
  obtain ⟨y', hy', hyl⟩ := hintBitPack_ok m p.omega h p.k hom hh.1 cfg.omk hb hsum
  rw [hhs] at hy'
  have := ok_inj hy'; subst this
  have hhu := hintBitUnpack_hintBitPack m p.k p.omega h hom cfg.omk hh.1 hb hsum hs hhs
  have hsiglen : sig.length = p.lambdaDiv4 + p.l * (32 * blz) + (p.omega.toNat + p.k) := by
    rw [hsig, List.length_append, List.length_append, hct, hfl, hzsl, hz.1, hyl]
  have hzb : ∀ c ∈ zs, ∀ b ∈ c, b < 256 := by
    intro c hc
    obtain ⟨j, hj, rfl⟩ := List.mem_iff_getElem.mp hc
    have hjz : j < z.length := by rw [← hzsl]; exact hj
    obtain ⟨v, hv, _, hvb, _⟩ := bitUnpack_bitPack m z[j] (p.gamma1 - 1) p.gamma1 blz (by omega) (by omega) h1 ⟨hz1, hz2⟩ (by omega)
      (hzr _ (List.getElem_mem _)) (hz.2 _ (List.getElem_mem _))
    have := mapM_get _ z zs hzs j hjz hj
    rw [hv] at this
    rw [← ok_inj this]; exact hvb
  have hhb : ∀ b ∈ hs, b < 256 := by
    rw [hintBitPack_eq_yOf m p.k p.omega h hom cfg.omk hh.1 hb hsum hs hhs]
    exact (hintBitUnpack_yOf m p.k p.omega h hom cfg.omk hh.1 hb hsum).2.1
  refine ⟨by omega, fun hcb b hbm => ?_, ?_⟩
  · rw [hsig] at hbm
    rcases List.mem_append.mp hbm with hbm | hbm
    · rcases List.mem_append.mp hbm with hbm | hbm
      · exact hcb b hbm
      · obtain ⟨c, hc, hbc⟩ := List.mem_flatten.mp hbm
        exact hzb c hc b hbc
    · exact hhb b hbm
  unfold sigDecode
  rw [dassertM_ok m _ _ hsl, ok_bind]
  have hsl0 : slice "encodings.rs:sig_decode:sigma[0..LAMBDA_DIV4]" sig 0 p.lambdaDiv4 = .ok ct := by
    rw [slice_ok _ sig 0 p.lambdaDiv4 (by constructor <;> omega)]
    congr 1
    rw [List.drop_zero, Nat.sub_zero, hsig, List.append_assoc, List.take_left' hct]
  rw [hsl0, ok_bind, arith_i32 _ _ _ (by omega) (by omega), ok_bind, h0, ok_bind]
  have hstep2 : 32 * (bl0 + 1) = 32 * blz := by rw [hbz]
  simp only [hstep2]
  rw [hun, ok_bind]
  simp only []
  have hsl2 : slice "encodings.rs:sig_decode:sigma[start..]" sig (p.lambdaDiv4 + p.l * (32 * blz)) sig.length = .ok hs := by
    rw [slice_ok _ sig _ sig.length (by constructor <;> omega)]
    congr 1
    have e : p.lambdaDiv4 + p.l * (32 * blz) = (ct ++ zs.flatten).length := by rw [List.length_append, hct, hfl, hzsl, hz.1]
    rw [hsig, e, List.drop_left', List.take_of_length_le (by rw [List.length_append, List.length_append]; omega)]
    rfl
  rw [hsl2, ok_bind, hhu, ok_bind]
  rfl

/-- **`sig_decode ∘ sig_encode = id`** for an in-range response and a 0/1 hint with at most omega ones -/
theorem sigDecode_sigEncode (m : Mode) (p : ParamSet) (blz : Nat) (cfg : SigCfg p blz) (ct : List Nat) (z h : List Poly)
    (hct : ct.length = p.lambdaDiv4) (hz : Sh p.l z) (hzr : ∀ q ∈ z, ∀ c ∈ q, -(p.gamma1 - 1) ≤ c ∧ c ≤ p.gamma1)
    (hh : Sh p.k h) (hb : ∀ q ∈ h, Bin q) (hsum : onesAll h ≤ p.omega.toNat) (sig : List Nat)
    (henc : sigEncode m false p ct z h = .ok sig) : sigDecode m p sig = .ok (some (ct, z, h)) :=
  (sigEncode_facts m p blz cfg ct z h hct hz hzr hh hb hsum sig henc).2.2

end Fips204.Impl
