import Fips204.Lemmas.ProdBound
import Fips204.Lemmas.HintDuality
/-! Why the verifier recovers the signer's `w1`: per-coefficient statement, the bound `‖c s‖∞ ≤ beta`, and the weight of the
    challenge. -/
namespace Fips204.Impl
open Fips204 Fips204.Gen Fips204.K

theorem modpm_cong (x : Int) : (modpm Q x - x) % Q = 0 := by
  unfold modpm; simp only [Q]; split <;> omega

theorem modpm_abs (x : Int) : -4190208 ≤ modpm Q x ∧ modpm Q x ≤ 4190208 := modpm_range x

theorem makeHint_mod_z (g z z' r : Int) (h : (z - z') % Q = 0) : Spec.makeHint g z r = Spec.makeHint g z' r := by
  unfold Spec.makeHint
  rw [highBits_mod g (r + z) (r + z') (by simp only [Q] at *; omega)]

/-- **one coefficient of the signer's hint**: if `‖c s2‖∞ ≤ beta`, `|LowBits(w - c s2)| < gamma2 - beta` and
    `‖c t0‖∞ < gamma2` (the tests Algorithm 7 applies before emitting), then
    `UseHint(MakeHint(-c t0, w - c s2 + c t0), w - c s2 + c t0) = HighBits(w)` -/
theorem coeff_hint (g beta w cs2 ct0 : Int) (hg : g = 95232 ∨ g = 261888) (hb : 0 ≤ beta ∧ beta ≤ g)
    (h1 : -beta ≤ modpm Q cs2 ∧ modpm Q cs2 ≤ beta)
    (h2 : -(g - beta) < Spec.lowBits g (w - cs2) ∧ Spec.lowBits g (w - cs2) < g - beta)
    (h3 : -g < modpm Q ct0 ∧ modpm Q ct0 < g) :
    Spec.useHint g (if Spec.makeHint g (-ct0) (w - cs2 + ct0) then 1 else 0) (w - cs2 + ct0) = Spec.highBits g w := by
  have c0 := modpm_cong ct0
  have c2 := modpm_cong cs2
  rw [makeHint_mod_z g (-ct0) (-(modpm Q ct0)) (w - cs2 + ct0) (by simp only [Q] at *; omega)]
  rw [Spec.hint_duality g (w - cs2 + ct0) (-(modpm Q ct0)) hg (by omega)]
  rw [highBits_mod g (w - cs2 + ct0 + -(modpm Q ct0)) (w - cs2) (by simp only [Q] at *; omega)]
  have hs := Spec.highBits_stable g (w - cs2) (modpm Q cs2) beta hg hb h1 h2
  rw [← hs]
  exact highBits_mod g _ _ (by simp only [Q] at *; omega)

/-- the challenge has exactly `tau` coefficients `±1` -/
theorem sum_abs_tri : ∀ (c : Poly), (∀ x ∈ c, x = -1 ∨ x = 0 ∨ x = 1) → (c.map absI).sum = (nz c : Nat) := by
  intro c
  induction c with
  | nil => intro _; simp [nz]
  | cons a as ih =>
    intro h
    rw [List.map_cons, list_sum_cons, ih (fun x hx => h x (List.mem_cons_of_mem _ hx)), nz_cons]
    rcases h a (List.mem_cons_self ..) with rfl | rfl | rfl <;> simp [absI_eq] <;> omega

theorem sampleInBall_np' (m : Mode) (O : Oracles) (hO : OracleOk O) (ctest : Bool) (tau : Int) (rho : List Nat)
    (ht : 0 ≤ tau ∧ tau ≤ 64) : NoPanic (sampleInBall m O ctest tau rho) (fun c => Tri c ∧ nz c = tau.toNat) := by
  unfold sampleInBall
  rw [if_neg (by omega)]
  simp only []
  rw [if_neg (by omega)]
  have hr : (List.range tau.toNat).map (fun t => 256 - tau.toNat + t) = List.range' (256 - tau.toNat) tau.toNat := by
    rw [List.range'_eq_map_range]
  rw [hr]
  have hh : ((O.h rho (8 + 1360 * O.fuelScale)).take 8).length = 8 := by rw [List.length_take, hO.hlen]; omega
  refine (sibFold_np O ctest tau.toNat _ hh (by omega) tau.toNat (256 - tau.toNat) zeroPoly _ (by omega) (by omega) Tri_zeroPoly
    (fun k _ hk => by unfold zeroPoly; rw [List.getElem?_replicate, if_pos hk])).bind (fun st hst => ?_)
  obtain ⟨c, s⟩ := st
  obtain ⟨hT, hn⟩ := hst
  rw [nz_zeroPoly, Nat.zero_add] at hn
  simp only []
  have d1 : ((c.filter (fun e => e ≠ 0)).length == tau.toNat) = true := beq_iff_eq.mpr hn
  have d2 : decide ((c.map (fun e => band .i32 e 1)).foldl (· + ·) 0 = Int.ofNat tau.toNat) = true := by
    rw [sum_band1 c hT.2 0, hn]; simp
  rw [dassert_dec m _ _ d1, ok_bind, dassert_dec m _ _ d2, ok_bind, pure_eq]
  exact NoPanic.ok _ ⟨hT, hn⟩

/-- `‖c * s‖∞ ≤ tau * eta` for a challenge of weight `tau` and `‖s‖∞ ≤ eta`: the centred coefficients of `cmul c s` -/
theorem cmul_centered_bound (c s : Poly) (tau eta : Int) (hc : Tri c) (hn : (nz c : Int) = tau) (hs : s.length = 256)
    (hB : ∀ x ∈ s, -eta ≤ x ∧ x ≤ eta) (he : 0 ≤ eta) (hsmall : eta * tau ≤ 4190208) :
    ∀ x ∈ cmul c s, -(eta * tau) ≤ modpm Q x ∧ modpm Q x ≤ eta * tau := by
  intro x hx
  unfold cmul canon at hx
  obtain ⟨v, hv, rfl⟩ := List.mem_map.mp hx
  have hb := negMul_bound c s eta (by rw [hc.1]; exact Nat.le_refl _) hs hB he v hv
  rw [sum_abs_tri c hc.2, hn] at hb
  unfold modpm
  simp only [Q]
  split <;> omega

end Fips204.Impl
