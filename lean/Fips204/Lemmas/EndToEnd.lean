import Fips204.Lemmas.SignVerify
/-! The model's `key_gen_internal`, `sign_internal` and `verify_internal` together: a signature made with a generated private key
    verifies under the generated public key. Composition of C04 (what key generation stores), C03 (signing is Algorithm 7),
    the specification-level completeness theorem and C02 (verification is Algorithm 8). -/
namespace Fips204.Impl
open Fips204 Fips204.Gen Fips204.K

/-- the vectors a generated pair stores, in the exact form `t = A s1 + s2`, `(t1, t0) = Power2Round(t)` -/
theorem genOk_vectors (m : Mode) (O : Oracles) (p : ParamSet) (he : p.eta = 2 ∨ p.eta = 4) (hl7 : p.l ≤ 7)
    (kp : PublicKey × PrivateKey) (hg : GenOk m O p kp) :
    ∃ s1 s2 aHat, expandA m O false p kp.1.rho = .ok aHat ∧
      (aHat.length = p.k ∧ ∀ row ∈ aHat, row.length = p.l ∧ ∀ q ∈ row, q.length = 256 ∧ Res q) ∧
      VecIn p.l (-p.eta) p.eta s1 ∧ VecIn p.k (-p.eta) p.eta s2 ∧
      VecIn p.k (-4095) 4096 ((List.zipWith (fun row s2r => tRowS row s1 s2r) aHat s2).map (fun q => q.map (fun x => (Spec.power2round x).2))) ∧
      VecIn p.k 0 1023 ((List.zipWith (fun row s2r => tRowS row s1 s2r) aHat s2).map (fun q => q.map (fun x => (Spec.power2round x).1))) ∧
      nttMont m s1 = .ok kp.2.s1 ∧ nttMont m s2 = .ok kp.2.s2 ∧
      nttMont m ((List.zipWith (fun row s2r => tRowS row s1 s2r) aHat s2).map (fun q => q.map (fun x => (Spec.power2round x).2))) = .ok kp.2.t0 ∧
      precomputeT1 m ((List.zipWith (fun row s2r => tRowS row s1 s2r) aHat s2).map (fun q => q.map (fun x => (Spec.power2round x).1))) = .ok kp.1.t1d2 := by
  obtain ⟨s1, s2, t0, t1, pkb, v1, v2, v0, vt, n1, n2, n0, pc, _, _, aHat, s1Hat, as1, w, t, hexp, hA, hntt, hmv', hinv', hadd', hp2'⟩ := hg.vecs
  have eta4 : 0 ≤ p.eta ∧ p.eta ≤ 4 := by rcases he with h | h <;> omega
  have hAA : ∀ row ∈ aHat, s1.length = row.length ∧ row.length ≤ 7 ∧ ∀ q ∈ row, Res q :=
    fun row hrow => ⟨by rw [v1.1.1, (hA.2 row hrow).1], by rw [(hA.2 row hrow).1]; exact hl7, fun q hq => ((hA.2 row hrow).2 q hq).2⟩
  have b1 : ∀ w ∈ s1, Bnd 524288 w := fun w hw x hx => by have := v1.2 w hw x hx; omega
  obtain ⟨s1h, h1, bs1h⟩ := ntt_ok m s1 b1
  rw [hntt] at h1
  have := ok_inj h1; subst this
  have bsy : ∀ w ∈ s1Hat, Bnd 67000000 w := fun w hw => (bs1h w hw).mono (by omega)
  have bum : ∀ w ∈ toMontP s1Hat, Bnd 16760833 w := by
    intro w hw x hx
    unfold toMontP at hw
    obtain ⟨q, hq, rfl⟩ := List.mem_map.mp hw
    obtain ⟨y, hy, rfl⟩ := List.mem_map.mp hx
    have hb := bsy q hq y hy
    have := pr64s_spec y hb.1 hb.2
    omega
  have hmv := matVecMul_pure m aHat s1Hat 7 (fun row hrow => ⟨(hAA row hrow).2.1, (hAA row hrow).2.2⟩) bsy (by omega)
  rw [hmv'] at hmv
  have := ok_inj hmv; subst this
  have hinv : invNtt m (matP aHat s1Hat) = .ok (aHat.map (fun row => canon ((invS 8 1 (rowS row s1 zeroPoly)).map (fun x => FS * x)))) := by
    unfold invNtt matP
    exact commitRows_spec m s1 s1Hat (by unfold ntt at hntt; exact hntt) b1 bum aHat hAA
  rw [hinv'] at hinv
  have := ok_inj hinv; subst this
  have hcan : ∀ q ∈ aHat.map (fun row => canon ((invS 8 1 (rowS row s1 zeroPoly)).map (fun x => FS * x))), Can q := by
    intro q hq
    obtain ⟨row, _, rfl⟩ := List.mem_map.mp hq
    exact canon_can _
  have hadd := addReduce_pure m _ s2 hcan (fun q hq x hx => by have := v2.2 q hq x hx; omega)
  rw [hadd'] at hadd
  have ht : List.zipWith (fun p q => List.zipWith (fun a b => (a + b) % Q) p q)
      (aHat.map (fun row => canon ((invS 8 1 (rowS row s1 zeroPoly)).map (fun x => FS * x)))) s2 =
      List.zipWith (fun row s2r => tRowS row s1 s2r) aHat s2 := by
    rw [List.zipWith_map_left]; rfl
  rw [ht] at hadd
  have := ok_inj hadd; subst this
  have hcanT : ∀ q ∈ List.zipWith (fun row s2r => tRowS row s1 s2r) aHat s2, Can q := by
    intro q hq
    obtain ⟨a, _, b, _, hqe⟩ := mem_zipWith' (fun row s2r => tRowS row s1 s2r) aHat s2 q hq
    intro x hx
    rw [hqe] at hx
    have hx' : x ∈ List.zipWith (fun a b => (a + b) % Q) (canon ((invS 8 1 (rowS a s1 zeroPoly)).map (fun x => FS * x))) b := hx
    obtain ⟨a', _, b', _, hxe⟩ := mem_zipWith' (fun a b => (a + b) % Q) _ _ x hx'
    rw [hxe]
    simp only [Q]; omega
  have hp2 := power2round_pure m _ hcanT
  rw [hp2'] at hp2
  have er := ok_inj hp2
  simp only [Prod.mk.injEq] at er
  obtain ⟨e1, e0⟩ := er
  subst e1 e0
  exact ⟨s1, s2, aHat, hexp, hA, v1, v2, v0, vt, n1, n2, n0, pc⟩

/-- the signature Algorithm 7 emits has signature length and consists of bytes -/
theorem signSpec_sig_wf (m : Mode) (O : Oracles) (hO : OracleOk O) (p : ParamSet) (blz : Nat) (cfg : SigCfg p blz)
    (hb0 : 0 ≤ p.beta) (htau : 0 ≤ p.tau ∧ p.tau ≤ 64)
    (fuel : Nat) (rho key tr : List Nat) (s1 s2 t0 : List Poly) (aHat : List (List Poly)) (hexp : expandA m O false p rho = .ok aHat)
    (hA : ∀ row ∈ aHat, ∀ a ∈ row, a.length = 256) (hk : aHat.length = p.k)
    (hs1 : s1.length = p.l ∧ ∀ u ∈ s1, u.length = 256) (hs2 : s2.length = p.k ∧ ∀ u ∈ s2, u.length = 256)
    (ht0 : t0.length = p.k ∧ ∀ u ∈ t0, u.length = 256)
    (msg ctx oid phm rnd : List Nat) (nist : Bool) (out : SignOut)
    (hsign : signSpec m O p fuel rho key tr s1 s2 t0 msg ctx oid phm rnd nist = .ok out) :
    out.sig.length = p.sigLen ∧ ∀ b ∈ out.sig, b < 256 := by
  unfold signSpec at hsign
  rw [hexp, ok_bind] at hsign
  simp only [] at hsign
  obtain ⟨r, hloop, hsign⟩ := bind_ok_inv hsign
  obtain ⟨cT, z, h, it⟩ := r
  simp only [] at hsign
  obtain ⟨sig, henc, hsign⟩ := bind_ok_inv hsign
  rw [pure_eq] at hsign
  have := ok_inj hsign; subst this
  obtain ⟨kappa', hatt⟩ := loop_some_attempt m O p s1 s2 t0 aHat _ _ cT z h it fuel 0 0 hloop
  obtain ⟨w1, w2, w3, w4, w5, w6⟩ := attempt_wf m O hO p hb0 cfg.om htau aHat s1 s2 t0 hA hs1 hs2 ht0 hk _ _ kappa'
    (fun y hy => by
      obtain ⟨a, b⟩ := expandMask_shape m O p _ kappa' y hy
      exact ⟨a.trans hs1.1.symm, b⟩) cT z h hatt
  obtain ⟨f1, f2, _⟩ := sigEncode_facts m p blz cfg cT z h w1 w2 w3 w4 w5 w6 sig henc
  refine ⟨f1, f2 ?_⟩
  -- the commitment hash is a string of oracle bytes
  unfold attemptSpec at hatt
  obtain ⟨y, _, g1⟩ := bind_ok_inv hatt
  simp only [] at g1
  obtain ⟨w1t, _, g2⟩ := bind_ok_inv g1
  obtain ⟨c, _, g3⟩ := bind_ok_inv g2
  split at g3
  · simp [pure_eq] at g3
  split at g3
  · simp [pure_eq] at g3
  simp only [pure_eq] at g3
  have e := ok_inj g3
  simp only [Option.some.injEq, Prod.mk.injEq] at e
  rw [← e.1]
  exact hO.hbyte _ _

/-- **sign then verify, on the model of the crate's functions**: for every seed, message, context, pre-hash and `rnd`, if
    `sign_internal` with the generated private key returns a signature, `verify_internal` with the generated public key accepts it -/
theorem keygen_sign_verify (m : Mode) (O : Oracles) (hO : OracleOk O) (p : ParamSet) (blz : Nat) (cfg : VerCfg p blz)
    (hk8 : 1 ≤ p.k ∧ p.k ≤ 8) (he : p.eta = 2 ∨ p.eta = 4) (hpk : p.pkLen = 32 + 32 * p.k * blqd)
    (hg2 : p.gamma2 = 95232 ∨ p.gamma2 = 261888) (hbeta : p.beta = p.eta * p.tau) (hbg : p.beta ≤ p.gamma2)
    (fuel : Nat) (hfuel : fuel * p.l ≤ 65535) (xi : List Nat) (kp : PublicKey × PrivateKey)
    (hkg : keyGenInternal m O false p xi = .ok kp) (msg ctx oid phm rnd : List Nat) (nist : Bool) (out : SignOut)
    (hs : signInternal m O false p fuel kp.2 msg ctx oid phm rnd nist = .ok out) :
    verifyInternal m O false p kp.1 msg out.sig ctx oid phm nist = .ok true := by
  have hgen : GenOk m O p kp := by
    rcases keyGenInternal_np m O hO p he cfg.l7 hpk xi with ⟨v, hv, hp⟩ | ⟨s, hs'⟩
    · rw [hkg] at hv; have := ok_inj hv; subst this; exact hp
    · rw [hkg] at hs'; cases hs'
  obtain ⟨s1, s2, aHat, hexp, hA, v1, v2, v0, vt, n1, n2, n0, pc⟩ := genOk_vectors m O p he cfg.l7 kp hgen
  have heta : 0 ≤ p.eta ∧ p.eta ≤ 4 := by rcases he with h | h <;> omega
  have hsig := signInternal_eq_spec m O hO p blz cfg hk8 he fuel hfuel kp.2 s1 s2 _ ⟨hgen.sk.rho, v1, v2, v0, n1, n2, n0⟩ hgen.sk
    msg ctx oid phm rnd nist
  rw [hs] at hsig
  have hrho : kp.2.rho = kp.1.rho := hgen.lens.2.2.1
  have htr : kp.2.tr = kp.1.tr := hgen.lens.2.2.2
  rw [hrho] at hsig
  have hA' : ∀ row ∈ aHat, ∀ a ∈ row, a.length = 256 := fun row hrow a ha => ((hA.2 row hrow).2 a ha).1
  have hver := sign_verify_spec m O hO p blz cfg.sig hg2 hbeta hbg cfg.tau heta fuel kp.1.rho kp.2.key kp.2.tr s1 s2 aHat hexp hA' hA.1
    ⟨v1.1.1, v1.1.2⟩ ⟨v2.1.1, v2.1.2⟩ v2.2 msg ctx oid phm rnd nist out hsig.symm
  obtain ⟨sl, sb⟩ := signSpec_sig_wf m O hO p blz cfg.sig cfg.beta.1 cfg.tau fuel kp.1.rho kp.2.key kp.2.tr s1 s2 _ aHat hexp hA' hA.1
    ⟨v1.1.1, v1.1.2⟩ ⟨v2.1.1, v2.1.2⟩ ⟨v0.1.1, v0.1.2⟩ msg ctx oid phm rnd nist out hsig.symm
  have hve := verifyInternal_eq_spec m O hO false p blz cfg kp.1.rho kp.1.tr _ kp.1.t1d2 hgen.pk.rho vt pc msg out.sig ctx oid phm nist sb sl
  rw [htr] at hver
  have hstruct : ({ rho := kp.1.rho, tr := kp.1.tr, t1d2 := kp.1.t1d2 } : PublicKey) = kp.1 := rfl
  rw [hstruct] at hve
  rw [hve]
  exact hver

end Fips204.Impl
