/-
  Lemmas.SpecHint — the crate's `hint_bit_unpack` is FIPS 204 Algorithm 21 (`HintBitUnpack`) as written (`Spec/Codec.lean`),
  for every byte string of length `omega + k`, in both build modes: same accept / reject decision, same hint vector.
-/
import Fips204.Spec.Codec
import Fips204.Lemmas.HintCodec
import Fips204.Lemmas.SignOk
namespace Fips204.Impl
open Fips204 Fips204.Gen

theorem getD_nat_of_lt (y : List Nat) (i : Nat) (h : i < y.length) : y.getD i 0 = y[i] := by
  rw [List.getD_eq_getElem?_getD, List.getElem?_eq_getElem h]; rfl

theorem hintInner_is_spec (y : List Nat) (hy : ∀ b ∈ y, b < 256) (first limit : Nat) (hl : limit ≤ y.length) :
    ∀ (fuel index : Nat) (hp : Poly), hp.length = 256 →
      hintInner y first limit fuel index hp = .ok (Spec.hintWhile y first limit fuel index hp) := by
  intro fuel
  induction fuel with
  | zero => intro index hp _; rfl
  | succ fuel ih =>
    intro index hp hb
    unfold hintInner Spec.hintWhile
    by_cases hlt : index < limit
    · rw [if_pos hlt, if_pos hlt, idx_ok _ y index (by omega), ok_bind]
      have hcur : y[index]'(by omega) < hp.length := by rw [hb]; exact hy _ (List.getElem_mem _)
      rw [getD_nat_of_lt y index (by omega)]
      by_cases hf : index > first
      · rw [if_pos hf, idx_ok _ y (index - 1) (by omega), ok_bind, getD_nat_of_lt y (index - 1) (by omega)]
        by_cases hge : y[index - 1]'(by omega) ≥ y[index]'(by omega)
        · rw [if_pos hge, if_pos ⟨hf, hge⟩]; rfl
        · rw [if_neg hge, if_neg (show ¬ (index > first ∧ y[index - 1]'(by omega) ≥ y[index]'(by omega)) from fun h => hge h.2), if_pos hcur]
          exact ih (index + 1) _ (by simp [hb])
      · rw [if_neg hf, if_neg (show ¬ (index > first ∧ y.getD (index - 1) 0 ≥ y[index]'(by omega)) from fun h => hf h.1), if_pos hcur]
        exact ih (index + 1) _ (by simp [hb])
    · rw [if_neg hlt, if_neg hlt]; rfl

theorem hintOuter_is_spec (m : Mode) (y : List Nat) (hy : ∀ b ∈ y, b < 256) (om : Nat) (hom : om ≤ y.length) :
    ∀ (is : List Nat) (index : Nat) (acc : List Poly), (∀ i ∈ is, om + i < y.length) →
      hintOuter m y om om is index acc = .ok (Spec.hintFor y om is index acc) := by
  intro is
  induction is with
  | nil => intro index acc _; rfl
  | cons i is ih =>
    intro index acc hi
    unfold hintOuter Spec.hintFor
    have hil : om + i < y.length := hi i List.mem_cons_self
    rw [idx_ok _ y (om + i) hil, ok_bind, getD_nat_of_lt y (om + i) hil]
    by_cases hrej : y[om + i] < index ∨ y[om + i] > om
    · have : (decide (y[om + i] < index) || decide (y[om + i] > om)) = true := by
        rcases hrej with h | h <;> simp [h]
      rw [if_pos this, if_pos hrej]; rfl
    · have : ¬ ((decide (y[om + i] < index) || decide (y[om + i] > om)) = true) := by
        simp only [Bool.or_eq_true, decide_eq_true_eq]; exact hrej
      rw [if_neg this, if_neg hrej]
      have hlim : y[om + i] ≤ y.length := by omega
      rw [hintInner_is_spec y hy index y[om + i] hlim 256 index zeroPoly (by unfold zeroPoly; exact List.length_replicate), ok_bind]
      have hz : zeroPoly = List.replicate 256 (0 : Int) := rfl
      rw [hz]
      cases Spec.hintWhile y index y[om + i] 256 index (List.replicate 256 0) with
      | none => rfl
      | some r =>
        obtain ⟨index', hp⟩ := r
        exact ih index' (hp :: acc) (fun x hx => hi x (List.mem_cons_of_mem _ hx))

theorem mapM_idx_getD (site : String) (y : List Nat) (index : Nat) :
    ∀ (n : Nat), index + n ≤ y.length →
      (List.range n).mapM (fun d => idx site y (index + d)) = .ok ((List.range n).map (fun d => y.getD (index + d) 0)) := by
  intro n hn
  have : ∀ (l : List Nat), (∀ d ∈ l, index + d < y.length) →
      l.mapM (fun d => idx site y (index + d)) = .ok (l.map (fun d => y.getD (index + d) 0)) := by
    intro l
    induction l with
    | nil => intro _; rfl
    | cons d ds ih =>
      intro h
      rw [List.mapM_cons, idx_ok _ y (index + d) (h d List.mem_cons_self), ok_bind, ih (fun x hx => h x (List.mem_cons_of_mem _ hx)), ok_bind,
        List.map_cons, getD_nat_of_lt y (index + d) (h d List.mem_cons_self)]
      rfl
  exact this (List.range n) (fun d hd => by have := List.mem_range.mp hd; omega)

/-- **`hint_bit_unpack` is FIPS 204 Algorithm 21 (`HintBitUnpack`) as written**: for every byte string of length `omega + k`
    (all three parameter sets satisfy `omega + k < 256`), in both build modes -/
theorem hintBitUnpack_is_algorithm_21 (m : Mode) (k : Nat) (omega : Int) (y : List Nat) (hy : ∀ b ∈ y, b < 256)
    (ho : 0 ≤ omega) (hk : 1 ≤ omega.toNat + k ∧ omega.toNat + k < 256) (hlen : y.length = omega.toNat + k) :
    hintBitUnpack m k omega y = .ok (Spec.hintBitUnpack omega.toNat k y) := by
  obtain ⟨r0, hr0, hprop⟩ := hintBitUnpack_ok m k omega y hy ho hk hlen
  unfold hintBitUnpack Spec.hintBitUnpack
  rw [if_neg (by omega)]
  have hmod : omega.toNat % 256 = omega.toNat := Nat.mod_eq_of_lt (by omega)
  simp only [dassert_dec m _ _ (show (decide (1 ≤ omega.toNat + k) && decide (omega.toNat + k < 256)) = true by simp; omega),
    dassert_dec m _ _ (show (y.length == omega.toNat + k) = true by simp [hlen]), ok_bind, hmod]
  rw [hintOuter_is_spec m y hy omega.toNat (by omega) (List.range k) 0 [] (fun i hi => by have := List.mem_range.mp hi; omega), ok_bind]
  obtain ⟨r, hr, hrp⟩ := hintOuter_ok m y hy omega.toNat omega.toNat (Nat.le_refl _) (List.range k) 0 []
    (fun i hi => by have := List.mem_range.mp hi; omega) (by omega) (by simp)
  rw [hintOuter_is_spec m y hy omega.toNat (by omega) (List.range k) 0 [] (fun i hi => by have := List.mem_range.mp hi; omega)] at hr
  cases hsf : Spec.hintFor y omega.toNat (List.range k) 0 [] with
  | none => rfl
  | some ih =>
    obtain ⟨index, h⟩ := ih
    rw [hsf] at hr
    have hrr : r = some (index, h) := by cases hr; rfl
    obtain ⟨c1, c2, c3⟩ := hrp index h hrr
    simp only []
    rw [mapM_idx_getD _ y index (omega.toNat - index) (by omega), ok_bind]
    have hany : ((List.range (omega.toNat - index)).map (fun d => y.getD (index + d) 0)).any (fun b => decide (b ≠ 0)) =
        (List.range (omega.toNat - index)).any (fun d => decide (y.getD (index + d) 0 ≠ 0)) := by
      rw [List.any_map]; rfl
    rw [hany]
    by_cases hz : (List.range (omega.toNat - index)).any (fun d => decide (y.getD (index + d) 0 ≠ 0)) = true
    · rw [if_pos hz, if_pos hz]; rfl
    · rw [if_neg hz, if_neg hz]
      have hall : (h.all fun p => decide (countOnes p ≤ omega)) = true := by
        rw [List.all_eq_true]
        intro q hq
        have := (c3 q hq).2
        rw [countOnes_eq]
        simp only [decide_eq_true_eq]
        omega
      rw [dassert_dec m _ _ hall, ok_bind]; rfl


/-! ### HintBitPack -/

theorem spec_hintPackPoly_eq : ∀ (L : List (Nat × Int)) (y : List Nat) (idx : Nat), (∀ je ∈ L, je.1 < 256) →
    Spec.hintPackPoly L y idx = (wr y idx (nzIdx L), idx + (nzIdx L).length) := by
  intro L
  induction L with
  | nil => intro y idx _; simp [Spec.hintPackPoly, nzIdx, wr]
  | cons je L ih =>
    intro y idx h
    obtain ⟨j, e⟩ := je
    have hj : j < 256 := h (j, e) List.mem_cons_self
    rw [nzIdx_cons]
    unfold Spec.hintPackPoly
    by_cases he : e ≠ 0
    · rw [if_pos he, if_pos he, ih _ _ (fun x hx => h x (List.mem_cons_of_mem _ hx))]
      simp only [wr, List.length_cons, Nat.mod_eq_of_lt hj]
      congr 1; omega
    · rw [if_neg he, if_neg he]
      exact ih y idx (fun x hx => h x (List.mem_cons_of_mem _ hx))

theorem packOuter_fold_is_spec (outLen om k : Nat) (hol : outLen = om + k) (hk : om + k < 256) : ∀ (hs : List Poly) (i0 : Nat) (Y : List Nat) (idx : Nat),
    Y.length = om + k → idx + onesAll hs ≤ om → i0 + hs.length ≤ k → (∀ q ∈ hs, Bin q) →
    ∃ idx', (List.zip (List.range' i0 hs.length) hs).foldlM (hintPackOuter false outLen om) (Y, idx) =
      .ok (Spec.hintPackFor om (List.zip (List.range' i0 hs.length) hs) Y idx, idx') := by
  intro hs
  induction hs with
  | nil => intro i0 Y idx _ _ _ _; exact ⟨idx, by simp [pure_eq, Spec.hintPackFor]⟩
  | cons hp hs ih =>
    intro i0 Y idx hY hsum hik hb
    rw [onesAll_cons] at hsum
    rw [List.length_cons] at hik
    have hbin := hb hp (List.mem_cons_self ..)
    have hnz : (nzIdx (List.zip (List.range 256) hp)).length = ones hp := by
      have := nzIdx_len_bin hp 0 hbin.2
      rw [hbin.1, ← List.range_eq_range'] at this; exact this
    have hin := packInner_fold outLen (List.zip (List.range 256) hp) Y idx (by rw [hnz, hY]; omega)
    rw [List.length_cons, List.range'_succ, List.zip_cons_cons, List.foldlM_cons]
    have hstep : hintPackOuter false outLen om (Y, idx) (i0, hp) =
        .ok ((wr Y idx (nzIdx (List.zip (List.range 256) hp))).set (om + i0) ((idx + ones hp) % 256), idx + ones hp) := by
      unfold hintPackOuter
      simp only []
      rw [hin, ok_bind]
      simp only []
      unfold setAt
      rw [if_pos (by rw [wr_length, hY]; omega), pure_eq, ok_bind, pure_eq, hnz]
    rw [hstep, ok_bind]
    obtain ⟨idx', hrest⟩ := ih (i0 + 1) ((wr Y idx (nzIdx (List.zip (List.range 256) hp))).set (om + i0) ((idx + ones hp) % 256)) (idx + ones hp)
      (by rw [List.length_set, wr_length]; exact hY) (by omega) (by omega)
      (fun q hq => hb q (List.mem_cons_of_mem _ hq))
    refine ⟨idx', ?_⟩
    rw [hrest]
    have hmod : (idx + ones hp) % 256 = idx + ones hp := Nat.mod_eq_of_lt (by omega)
    have hspec : Spec.hintPackFor om ((i0, hp) :: List.zip (List.range' (i0 + 1) hs.length) hs) Y idx =
        Spec.hintPackFor om (List.zip (List.range' (i0 + 1) hs.length) hs)
          ((wr Y idx (nzIdx (List.zip (List.range 256) hp))).set (om + i0) ((idx + ones hp) % 256)) (idx + ones hp) := by
      rw [Spec.hintPackFor]
      rw [spec_hintPackPoly_eq _ Y idx (fun je hje => by
        have := List.of_mem_zip hje
        exact List.mem_range.mp this.1)]
      simp only [hnz, hmod]
    rw [hspec]

/-- **`hint_bit_pack` is FIPS 204 Algorithm 20 (`HintBitPack`) as written**, on every 0/1 hint vector with at most omega ones -/
theorem hintBitPack_is_algorithm_20 (m : Mode) (omega : Int) (h : List Poly) (k : Nat) (ho : 0 ≤ omega) (hk : h.length = k)
    (hok : 1 ≤ omega.toNat + k ∧ omega.toNat + k < 256) (hb : ∀ q ∈ h, Bin q) (hsum : onesAll h ≤ omega.toNat) :
    hintBitPack m false omega h (omega.toNat + k) = .ok (Spec.hintBitPack omega.toNat h) := by
  unfold hintBitPack
  rw [if_neg (by omega)]
  simp only [hk]
  obtain ⟨bs, hbs, _, hbt⟩ := mapM_ok_len (fun p => isInRange m p 0 1) (fun r => r ∈ h) (fun b => b = true)
    (fun r hr' => ⟨true, isInRange_true m r 0 1 (by omega) (fun c hc => by
      rcases (hb r hr').2 c hc with h0 | h1 <;> omega), rfl⟩) h (fun a ha => ha)
  have hall : bs.all id = true := by rw [List.all_eq_true]; intro b hb'; exact hbt b hb'
  have d3 : dassertM m "conversion.rs:hint_bit_pack:debug_assert(Alg 20: h not 0/1)" (do
      let bs ← h.mapM (fun p => isInRange m p 0 1)
      pure (bs.all id)) = .ok () := by
    apply dassertM_ok; rw [hbs, ok_bind, pure_eq, hall]
  have d4 : (h.all fun p => decide (countOnes p ≤ omega)) = true := by
    rw [List.all_eq_true]; intro q hq
    have := ones_le_onesAll h q hq
    rw [countOnes_eq]; simp only [decide_eq_true_eq]; omega
  obtain ⟨idx', hf⟩ := packOuter_fold_is_spec (omega.toNat + k) omega.toNat k rfl hok.2 h 0 (List.replicate (omega.toNat + k) 0) 0
    (List.length_replicate ..) (by omega) (by omega) hb
  rw [hk, ← List.range_eq_range'] at hf
  rw [dassert_dec m _ _ (show (decide (1 ≤ omega.toNat + k) && decide (omega.toNat + k < 256)) = true by simp; omega), ok_bind,
    dassert_dec m _ _ (show (omega.toNat + k == omega.toNat + k) = true by simp), ok_bind, d3, ok_bind, dassert_dec m _ _ d4, ok_bind,
    hf, ok_bind, pure_eq]
  unfold Spec.hintBitPack
  rw [hk]

end Fips204.Impl
