import Fips204.Lemmas.BitRoundTrip
/-! `hint_bit_pack ∘ hint_bit_unpack = id`: every hint section the decoder accepts is exactly what the encoder emits
    for the decoded hint - the encoding of a hint vector is unique. -/
namespace Fips204.Impl
open Fips204 Fips204.Gen Fips204.K

/-! ### (1) the polynomial the decoder builds from a segment of indices -/

/-- set the listed positions to one -/
def setOnes (seg : List Nat) (base : Poly) : Poly := seg.foldl (fun p c => p.set c 1) base

theorem setOnes_length (seg : List Nat) : ∀ base : Poly, (setOnes seg base).length = base.length := by
  induction seg with
  | nil => intro base; rfl
  | cons c cs ih => intro base; unfold setOnes; rw [List.foldl_cons]; exact (ih _).trans (List.length_set ..)

theorem setOnes_get (seg : List Nat) : ∀ (base : Poly) (j : Nat), j < base.length →
    (setOnes seg base)[j]? = if j ∈ seg then some 1 else base[j]? := by
  induction seg with
  | nil => intro base j _; simp [setOnes]
  | cons c cs ih =>
    intro base j hj
    unfold setOnes
    rw [List.foldl_cons]
    have := ih (base.set c 1) j (by rw [List.length_set]; exact hj)
    unfold setOnes at this
    rw [this]
    by_cases hjc : j ∈ cs
    · simp [hjc]
    · by_cases hc : j = c
      · subst hc; simp [hjc, List.getElem?_set_self hj]
      · have hc' : c ≠ j := fun h => hc h.symm
        simp [hjc, hc, List.getElem?_set_ne hc']

/-! ### (2) inverting a successful decoder run -/

/-- strictly increasing bytes on `[lo, hi)` of `y`, as the decoder checks them -/
def IncOn (y : List Nat) (lo hi : Nat) : Prop := ∀ j, lo < j → j < hi → ∀ (h1 : j - 1 < y.length) (h2 : j < y.length), y[j - 1] < y[j]

theorem hintInner_inv (y : List Nat) (first limit : Nat) (hl : limit ≤ y.length) :
    ∀ (fuel index : Nat) (hp : Poly) (i' : Nat) (hp' : Poly), first ≤ index → index ≤ limit → limit ≤ index + fuel →
      hintInner y first limit fuel index hp = .ok (some (i', hp')) →
      i' = limit ∧ hp' = setOnes ((y.drop index).take (limit - index)) hp ∧
        (∀ j, index ≤ j → first < j → j < limit → ∀ (h1 : j - 1 < y.length) (h2 : j < y.length), y[j - 1] < y[j]) := by
  intro fuel
  induction fuel with
  | zero =>
    intro index hp i' hp' _ h1 h2 h
    have : index = limit := by omega
    subst this
    simp only [hintInner, pure_eq] at h
    have := ok_inj h
    simp only [Option.some.injEq, Prod.mk.injEq] at this
    exact ⟨this.1.symm, by rw [← this.2]; simp [setOnes], fun j _ _ _ => by omega⟩
  | succ fuel ih =>
    intro index hp i' hp' hf h1 h2 h
    unfold hintInner at h
    by_cases hlt : index < limit
    · rw [if_pos hlt, idx_ok _ y index (by omega), ok_bind] at h
      have hseg : (y.drop index).take (limit - index) = y[index]'(by omega) :: (y.drop (index + 1)).take (limit - (index + 1)) := by
        rw [List.drop_eq_getElem_cons (by omega), show limit - index = (limit - (index + 1)) + 1 by omega, List.take_succ_cons]
      have cont : ∀ (hrec : hintInner y first limit fuel (index + 1) (hp.set (y[index]'(by omega)) 1) = .ok (some (i', hp'))),
          (∀ (h1 : index - 1 < y.length) (h2 : index < y.length), first < index → y[index - 1] < y[index]) →
          i' = limit ∧ hp' = setOnes ((y.drop index).take (limit - index)) hp ∧
          (∀ j, index ≤ j → first < j → j < limit → ∀ (h1 : j - 1 < y.length) (h2 : j < y.length), y[j - 1] < y[j]) := by
        intro hrec hthis
        obtain ⟨e1, e2, e3⟩ := ih (index + 1) _ i' hp' (by omega) (by omega) (by omega) hrec
        refine ⟨e1, ?_, fun j hj hfj hjl h1' h2' => ?_⟩
        · rw [e2, hseg]; simp [setOnes]
        · by_cases hji : j = index
          · subst hji; exact hthis h1' h2' hfj
          · exact e3 j (by omega) hfj hjl h1' h2'
      by_cases hfi : index > first
      · rw [if_pos hfi, idx_ok _ y (index - 1) (by omega), ok_bind] at h
        by_cases hge : y[index - 1]'(by omega) ≥ y[index]'(by omega)
        · rw [if_pos hge, pure_eq] at h; have := ok_inj h; simp at this
        · rw [if_neg hge] at h
          split at h
          · exact cont h (fun _ _ _ => by omega)
          · cases h
      · rw [if_neg hfi] at h
        split at h
        · exact cont h (fun _ _ hc => by omega)
        · cases h
    · rw [if_neg hlt, pure_eq] at h
      have : index = limit := by omega
      subst this
      have := ok_inj h
      simp only [Option.some.injEq, Prod.mk.injEq] at this
      exact ⟨this.1.symm, by rw [← this.2]; simp [setOnes], fun j _ _ _ => by omega⟩

/-! ### (3) the positions of the non-zero coefficients of `setOnes seg 0` are `seg` -/

/-- indices the encoder's inner loop writes for a list of (index, coefficient) pairs -/
def nzIdx (L : List (Nat × Int)) : List Nat := (L.filter (fun je => decide (je.2 ≠ 0))).map (·.1)

theorem nzIdx_cons (j : Nat) (e : Int) (L : List (Nat × Int)) :
    nzIdx ((j, e) :: L) = if e ≠ 0 then j :: nzIdx L else nzIdx L := by
  unfold nzIdx
  by_cases h : e = 0
  · simp [h]
  · simp [h]

theorem nzIdx_zip (hp : Poly) : ∀ (s : Nat) (seg : List Nat), List.Pairwise (· < ·) seg → (∀ c ∈ seg, s ≤ c ∧ c < s + hp.length) →
    (∀ j (h : j < hp.length), hp[j] ≠ 0 ↔ s + j ∈ seg) → nzIdx (List.zip (List.range' s hp.length) hp) = seg := by
  induction hp with
  | nil =>
    intro s seg _ hb _
    cases seg with
    | nil => rfl
    | cons c cs => have := hb c (List.mem_cons_self ..); simp at this; omega
  | cons e es ih =>
    intro s seg hs hb hm
    rw [List.length_cons, List.range'_succ, List.zip_cons_cons, nzIdx_cons]
    have h0 := hm 0 (by simp)
    simp only [List.getElem_cons_zero, Nat.add_zero] at h0
    cases seg with
    | nil =>
      have he : ¬ e ≠ 0 := fun h => by have := h0.mp h; simp at this
      rw [if_neg he]
      exact ih (s + 1) [] List.Pairwise.nil (by simp) (fun j hj => by
        have := hm (j + 1) (by simpa using hj)
        simp only [List.getElem_cons_succ] at this
        simpa using this)
    | cons c cs =>
      have hc := hb c (List.mem_cons_self ..)
      have hcs : ∀ x ∈ cs, c < x := (List.pairwise_cons.mp hs).1
      by_cases hcs0 : c = s
      · subst hcs0
        rw [if_pos (h0.mpr (List.mem_cons_self ..))]
        congr 1
        exact ih (c + 1) cs (List.pairwise_cons.mp hs).2
          (fun x hx => by have := hb x (List.mem_cons_of_mem _ hx); have := hcs x hx; simp at *; omega)
          (fun j hj => by
            have := hm (j + 1) (by simpa using hj)
            simp only [List.getElem_cons_succ] at this
            rw [this, show c + (j + 1) = c + 1 + j by omega]
            constructor
            · intro h; rcases List.mem_cons.mp h with h | h
              · omega
              · exact h
            · intro h; exact List.mem_cons_of_mem _ h)
      · have he : ¬ e ≠ 0 := fun h => by
          have := h0.mp h
          rcases List.mem_cons.mp this with h | h
          · omega
          · have := hcs s h; omega
        rw [if_neg he]
        exact ih (s + 1) (c :: cs) hs
          (fun x hx => by
            have := hb x hx
            rcases List.mem_cons.mp hx with h | h
            · subst h; simp at *; omega
            · have := hcs x h; simp at *; omega)
          (fun j hj => by
            have := hm (j + 1) (by simpa using hj)
            simp only [List.getElem_cons_succ] at this
            rw [this, show s + (j + 1) = s + 1 + j by omega])

/-! ### (4) the encoder's inner loop is a sequence of writes -/

/-- write the listed bytes from position `idx` on -/
def wr : List Nat → Nat → List Nat → List Nat
  | Y, _, [] => Y
  | Y, idx, j :: js => wr (Y.set idx (j % 256)) (idx + 1) js

theorem wr_length : ∀ (js : List Nat) (Y : List Nat) (idx : Nat), (wr Y idx js).length = Y.length := by
  intro js
  induction js with
  | nil => intro Y idx; rfl
  | cons j js ih => intro Y idx; unfold wr; rw [ih, List.length_set]

theorem packInner_step (outLen : Nat) (Y : List Nat) (idx j : Nat) (e : Int) :
    hintPackInner false outLen (Y, idx) (j, e) =
      if e ≠ 0 then (if idx < Y.length then .ok (Y.set idx (j % 256), idx + 1)
        else .error (Fault.oob "conversion.rs:hint_bit_pack:y_bytes[index]")) else .ok (Y, idx) := by
  unfold hintPackInner setAt
  simp only [Bool.false_and, Bool.false_eq_true, if_false, Bool.false_or, decide_eq_true_eq]
  by_cases he : e ≠ 0
  · rw [if_pos he, if_pos he]
    by_cases hi : idx < Y.length
    · rw [if_pos hi, if_pos hi, pure_eq, ok_bind, pure_eq]
    · rw [if_neg hi, if_neg hi]; rfl
  · rw [if_neg he, if_neg he, pure_eq]

theorem packInner_fold (outLen : Nat) : ∀ (L : List (Nat × Int)) (Y : List Nat) (idx : Nat), idx + (nzIdx L).length ≤ Y.length →
    L.foldlM (hintPackInner false outLen) (Y, idx) = .ok (wr Y idx (nzIdx L), idx + (nzIdx L).length) := by
  intro L
  induction L with
  | nil => intro Y idx _; simp [nzIdx, wr, pure_eq]
  | cons je L ih =>
    intro Y idx h
    obtain ⟨j, e⟩ := je
    rw [nzIdx_cons] at h ⊢
    rw [List.foldlM_cons, packInner_step]
    by_cases he : e ≠ 0
    · rw [if_pos he] at h ⊢
      rw [if_pos he]
      simp only [List.length_cons] at h
      rw [if_pos (by omega), ok_bind, ih _ _ (by rw [List.length_set]; omega)]
      simp only [wr, List.length_cons]
      congr 2; omega
    · rw [if_neg he] at h ⊢
      rw [if_neg he, ok_bind]
      exact ih Y idx h

/-! ### (5) writing a segment of `y` back into a partial copy of `y` -/

/-- `Y` is `y` on `[0, idx)` and on the `i` count bytes written so far, zero elsewhere -/
def Agree (y Y : List Nat) (idx i om : Nat) : Prop :=
  Y.length = y.length ∧ ∀ p, p < y.length → Y[p]? = if p < idx ∨ (om ≤ p ∧ p < om + i) then y[p]? else some 0

theorem wr_agree (y : List Nat) (hy : ∀ b ∈ y, b < 256) (i om : Nat) : ∀ (n s : Nat) (Y : List Nat), s + n ≤ y.length →
    Agree y Y s i om → Agree y (wr Y s ((y.drop s).take n)) (s + n) i om := by
  intro n
  induction n with
  | zero => intro s Y _ h; simpa [wr] using h
  | succ n ih =>
    intro s Y hs h
    have hseg : (y.drop s).take (n + 1) = y[s]'(by omega) :: (y.drop (s + 1)).take n := by
      rw [List.drop_eq_getElem_cons (by omega), List.take_succ_cons]
    rw [hseg]
    unfold wr
    rw [Nat.mod_eq_of_lt (hy _ (List.getElem_mem _)), show s + (n + 1) = s + 1 + n by omega]
    refine ih (s + 1) _ (by omega) ⟨by rw [List.length_set]; exact h.1, fun p hp => ?_⟩
    by_cases hps : p = s
    · subst hps
      rw [List.getElem?_set_self (by rw [h.1]; omega), if_pos (Or.inl (by omega)), List.getElem?_eq_getElem hp]
    · rw [List.getElem?_set_ne (fun hh => hps hh.symm), h.2 p hp]
      by_cases hc : p < s ∨ (om ≤ p ∧ p < om + i)
      · rw [if_pos hc, if_pos (by omega)]
      · rw [if_neg hc, if_neg (by omega)]

/-! ### (6) strictly increasing segments -/

theorem inc_lt (y : List Nat) (lo hi : Nat) (hinc : ∀ j, lo < j → j < hi → y.getD (j - 1) 0 < y.getD j 0) :
    ∀ d, lo + d + 1 < hi → y.getD lo 0 < y.getD (lo + d + 1) 0 := by
  intro d
  induction d with
  | zero => intro h; have := hinc (lo + 1) (by omega) (by omega); simpa using this
  | succ d ih =>
    intro h
    have h1 := ih (by omega)
    have h2 := hinc (lo + (d + 1) + 1) (by omega) h
    have e : lo + (d + 1) + 1 - 1 = lo + d + 1 := by omega
    rw [e] at h2
    omega

theorem mem_seg (y : List Nat) (s n : Nat) (hs : s + n ≤ y.length) (x : Nat) (hx : x ∈ (y.drop s).take n) :
    ∃ d, d < n ∧ x = y.getD (s + d) 0 := by
  obtain ⟨i, hi, rfl⟩ := List.mem_iff_getElem.mp hx
  rw [List.length_take, List.length_drop] at hi
  refine ⟨i, by omega, ?_⟩
  rw [List.getElem_take, List.getElem_drop, List.getD_eq_getElem?_getD, List.getElem?_eq_getElem (by omega)]
  rfl

theorem pairwise_seg (y : List Nat) : ∀ (n s : Nat), s + n ≤ y.length →
    (∀ j, s < j → j < s + n → y.getD (j - 1) 0 < y.getD j 0) → List.Pairwise (· < ·) ((y.drop s).take n) := by
  intro n
  induction n with
  | zero => intro s _ _; simp
  | succ n ih =>
    intro s hs hinc
    have hseg : (y.drop s).take (n + 1) = y[s]'(by omega) :: (y.drop (s + 1)).take n := by
      rw [List.drop_eq_getElem_cons (by omega), List.take_succ_cons]
    rw [hseg, List.pairwise_cons]
    refine ⟨fun x hx => ?_, ih (s + 1) (by omega) (fun j h1 h2 => hinc j (by omega) (by omega))⟩
    obtain ⟨d, hd, rfl⟩ := mem_seg y (s + 1) n (by omega) x hx
    have := inc_lt y s (s + (n + 1)) hinc d (by omega)
    have e : y[s]'(by omega) = y.getD s 0 := by
      rw [List.getD_eq_getElem?_getD, List.getElem?_eq_getElem (by omega)]; rfl
    rw [e, show s + 1 + d = s + d + 1 by omega]
    exact this

/-! ### (7) one polynomial: the encoder's inner loop re-writes the decoded segment -/

theorem zeroPoly_get (j : Nat) (h : j < 256) : zeroPoly[j]? = some 0 := by
  unfold zeroPoly; rw [List.getElem?_replicate, if_pos h]

theorem packInner_seg (y : List Nat) (hy : ∀ b ∈ y, b < 256) (outLen i om s e : Nat) (Y : List Nat) (hse : s ≤ e) (he : e ≤ y.length)
    (hA : Agree y Y s i om) (hinc : ∀ j, s < j → j < e → y.getD (j - 1) 0 < y.getD j 0) :
    ∃ Y', (List.zip (List.range 256) (setOnes ((y.drop s).take (e - s)) zeroPoly)).foldlM (hintPackInner false outLen) (Y, s) = .ok (Y', e) ∧
      Agree y Y' e i om := by
  have hlen : (setOnes ((y.drop s).take (e - s)) zeroPoly).length = 256 := by
    rw [setOnes_length]; unfold zeroPoly; rw [List.length_replicate]
  have hsegb : ∀ c ∈ (y.drop s).take (e - s), c < 256 := fun c hc => hy c (mem_slice _ _ _ _ hc)
  have hnz : nzIdx (List.zip (List.range 256) (setOnes ((y.drop s).take (e - s)) zeroPoly)) = (y.drop s).take (e - s) := by
    have := nzIdx_zip (setOnes ((y.drop s).take (e - s)) zeroPoly) 0 ((y.drop s).take (e - s))
      (pairwise_seg y (e - s) s (by omega) (fun j h1 h2 => hinc j h1 (by omega)))
      (fun c hc => by rw [hlen]; have := hsegb c hc; omega)
      (fun j hj => by
        rw [hlen] at hj
        have hg := setOnes_get ((y.drop s).take (e - s)) zeroPoly j (by unfold zeroPoly; rw [List.length_replicate]; exact hj)
        rw [List.getElem?_eq_getElem (by rw [hlen]; exact hj), zeroPoly_get j hj] at hg
        rw [Nat.zero_add]
        by_cases hm : j ∈ (y.drop s).take (e - s)
        · rw [if_pos hm] at hg
          have : (setOnes ((y.drop s).take (e - s)) zeroPoly)[j] = 1 := by simpa using hg
          rw [this]; simp [hm]
        · rw [if_neg hm] at hg
          have : (setOnes ((y.drop s).take (e - s)) zeroPoly)[j] = 0 := by simpa using hg
          rw [this]; simp [hm])
    rw [hlen, ← List.range_eq_range'] at this
    exact this
  have hsl : ((y.drop s).take (e - s)).length = e - s := by rw [List.length_take, List.length_drop]; omega
  have hf := packInner_fold outLen (List.zip (List.range 256) (setOnes ((y.drop s).take (e - s)) zeroPoly)) Y s
    (by rw [hnz, hsl, hA.1]; omega)
  rw [hnz, hsl, show s + (e - s) = e by omega] at hf
  refine ⟨_, hf, ?_⟩
  have := wr_agree y hy i om (e - s) s Y (by omega) hA
  rwa [show s + (e - s) = e by omega] at this

theorem packOuter_step (y : List Nat) (hy : ∀ b ∈ y, b < 256) (outLen i om s e : Nat) (Y : List Nat) (hse : s ≤ e) (heo : e ≤ om)
    (hoi : om + i < y.length) (hyi : y.getD (om + i) 0 = e)
    (hA : Agree y Y s i om) (hinc : ∀ j, s < j → j < e → y.getD (j - 1) 0 < y.getD j 0) :
    ∃ Y', hintPackOuter false outLen om (Y, s) (i, setOnes ((y.drop s).take (e - s)) zeroPoly) = .ok (Y', e) ∧ Agree y Y' e (i + 1) om := by
  obtain ⟨Y1, h1, hA1⟩ := packInner_seg y hy outLen i om s e Y hse (by omega) hA hinc
  have he256 : e < 256 := by
    rw [← hyi, List.getD_eq_getElem?_getD, List.getElem?_eq_getElem hoi]
    exact hy _ (List.getElem_mem _)
  unfold hintPackOuter
  simp only []
  rw [h1, ok_bind]
  simp only []
  unfold setAt
  rw [if_pos (by rw [hA1.1]; exact hoi), pure_eq, ok_bind, pure_eq, Nat.mod_eq_of_lt he256]
  refine ⟨_, rfl, by rw [List.length_set]; exact hA1.1, fun p hp => ?_⟩
  by_cases hpo : p = om + i
  · subst hpo
    rw [List.getElem?_set_self (by rw [hA1.1]; exact hoi), if_pos (Or.inr (by omega)), List.getElem?_eq_getElem hoi]
    rw [List.getD_eq_getElem?_getD, List.getElem?_eq_getElem hoi] at hyi
    simp only [Option.getD_some] at hyi
    rw [hyi]
  · rw [List.getElem?_set_ne (fun hh => hpo hh.symm), hA1.2 p hp]
    by_cases hc : p < e ∨ (om ≤ p ∧ p < om + i)
    · rw [if_pos hc, if_pos (by omega)]
    · rw [if_neg hc, if_neg (by omega)]

/-! ### (8) all polynomials: decoder run and encoder run in lock step -/

theorem getD_of_idx (site : String) (y : List Nat) (i x : Nat) (h : idx site y i = .ok x) : i < y.length ∧ y.getD i 0 = x := by
  unfold idx at h
  cases hq : y[i]? with
  | none => rw [hq] at h; cases h
  | some v =>
    rw [hq] at h
    have hv : v = x := ok_inj h
    subst hv
    have hi : i < y.length := by
      by_cases hi : i < y.length
      · exact hi
      · rw [List.getElem?_eq_none (by omega)] at hq; cases hq
    exact ⟨hi, by rw [List.getD_eq_getElem?_getD, hq]; rfl⟩

/-- well-formedness of the count bytes and index segments of a hint section, from polynomial `i0` and byte `index` on:
    counts never decrease, never exceed `omB`, and the indices of each polynomial strictly increase -/
def hintWF (y : List Nat) (om omB : Nat) : Nat → Nat → Nat → Prop
  | 0, _, _ => True
  | n + 1, i0, index =>
    index ≤ y.getD (om + i0) 0 ∧ y.getD (om + i0) 0 ≤ omB ∧
    (∀ j, index < j → j < y.getD (om + i0) 0 → y.getD (j - 1) 0 < y.getD j 0) ∧
    hintWF y om omB n (i0 + 1) (y.getD (om + i0) 0)

theorem outer_joint (m : Mode) (y : List Nat) (hy : ∀ b ∈ y, b < 256) (om omB outLen : Nat) (hob : omB ≤ om) (hoB : omB < 256) :
    ∀ (n i0 index : Nat) (acc : List Poly) (i' : Nat) (hs : List Poly), om + i0 + n ≤ y.length → index ≤ omB →
      hintOuter m y om omB (List.range' i0 n) index acc = .ok (some (i', hs)) →
      ∃ hsNew, hs = acc.reverse ++ hsNew ∧ hsNew.length = n ∧ i' ≤ omB ∧ index ≤ i' ∧ (∀ Y, Agree y Y index i0 om →
        ∃ Y', (List.zip (List.range' i0 n) hsNew).foldlM (hintPackOuter false outLen om) (Y, index) = .ok (Y', i') ∧
          Agree y Y' i' (i0 + n) om) ∧ hintWF y om omB n i0 index ∧ (n = 0 → i' = index) ∧
        (0 < n → i' = y.getD (om + i0 + n - 1) 0) := by
  intro n
  induction n with
  | zero =>
    intro i0 index acc i' hs _ hi h
    simp only [List.range'_zero, hintOuter, pure_eq] at h
    have := ok_inj h
    simp only [Option.some.injEq, Prod.mk.injEq] at this
    obtain ⟨rfl, rfl⟩ := this
    exact ⟨[], by simp, rfl, hi, Nat.le_refl _, fun Y hA => ⟨Y, by simp [pure_eq], by simpa using hA⟩, trivial, fun _ => rfl, fun h => by omega⟩
  | succ n ih =>
    intro i0 index acc i' hs hlen hi h
    rw [List.range'_succ] at h
    unfold hintOuter at h
    obtain ⟨yi, hyi, h⟩ := bind_ok_inv h
    obtain ⟨hoi, hyiD⟩ := getD_of_idx _ y (om + i0) yi hyi
    by_cases hbad : (decide (yi < index) || decide (yi > omB)) = true
    · rw [if_pos hbad, pure_eq] at h; have := ok_inj h; simp at this
    · rw [if_neg hbad] at h
      simp only [Bool.or_eq_true, decide_eq_true_eq, not_or, Nat.not_lt, gt_iff_lt] at hbad
      obtain ⟨r, hr, h3⟩ := bind_ok_inv h
      cases r with
      | none => rw [pure_eq] at h3; have := ok_inj h3; simp at this
      | some ip =>
        obtain ⟨i1, hp1⟩ := ip
        replace h3 : hintOuter m y om omB (List.range' (i0 + 1) n) i1 (hp1 :: acc) = .ok (some (i', hs)) := h3
        obtain ⟨e1, e2, e3⟩ := hintInner_inv y index yi (by omega) 256 index zeroPoly i1 hp1 (Nat.le_refl _) hbad.1 (by omega) hr
        subst e1
        obtain ⟨hsNew', f1, f2, f3, f4, f5, f6, f7, f8⟩ := ih (i0 + 1) i1 (hp1 :: acc) i' hs (by omega) hbad.2 h3
        have hinc : ∀ j, index < j → j < i1 → y.getD (j - 1) 0 < y.getD j 0 := by
          intro j h1 h2
          have := e3 j (by omega) h1 h2 (by omega) (by omega)
          rw [List.getD_eq_getElem?_getD, List.getD_eq_getElem?_getD, List.getElem?_eq_getElem (show j - 1 < y.length by omega),
            List.getElem?_eq_getElem (show j < y.length by omega)]
          exact this
        refine ⟨hp1 :: hsNew', by rw [f1]; simp, by simp [f2], f3, by omega, fun Y hA => ?_,
          by unfold hintWF; rw [hyiD]; exact ⟨hbad.1, hbad.2, hinc, f6⟩, fun h => by omega, fun _ => ?_⟩
        rotate_left
        · by_cases hn : n = 0
          · rw [f7 hn, hn, ← hyiD]; congr 2
          · rw [f8 (by omega)]; congr 2; omega
        obtain ⟨Y1, g1, gA⟩ := packOuter_step y hy outLen i0 om index i1 Y hbad.1 (by omega) hoi hyiD hA hinc
        obtain ⟨Y2, g2, gB⟩ := f5 Y1 gA
        refine ⟨Y2, ?_, by rw [show i0 + (n + 1) = i0 + 1 + n by omega]; exact gB⟩
        rw [List.range'_succ, List.zip_cons_cons, List.foldlM_cons, e2, g1, ok_bind]
        exact g2

theorem mapM_pure {α β} (f : α → M β) (g : α → β) : ∀ l : List α, (∀ a ∈ l, f a = .ok (g a)) → l.mapM f = .ok (l.map g) := by
  intro l
  induction l with
  | nil => intro _; simp [pure_eq]
  | cons a as ih =>
    intro h
    rw [List.mapM_cons, h a (List.mem_cons_self ..), ok_bind, ih (fun x hx => h x (List.mem_cons_of_mem _ hx)), ok_bind, pure_eq]
    rfl

/-- **`hint_bit_pack ∘ hint_bit_unpack = id`**: whatever hint section the decoder accepts, the encoder reproduces it
    from the decoded hint, byte for byte - so two different sections never decode to the same hint -/
theorem hintBitPack_hintBitUnpack (m : Mode) (k : Nat) (omega : Int) (y : List Nat) (hy : ∀ b ∈ y, b < 256)
    (ho : 0 ≤ omega) (hk : 1 ≤ omega.toNat + k ∧ omega.toNat + k < 256) (hlen : y.length = omega.toNat + k)
    (h : List Poly) (hdec : hintBitUnpack m k omega y = .ok (some h)) :
    hintBitPack m false omega h (omega.toNat + k) = .ok y := by
  obtain ⟨r0, hr0, hprops⟩ := hintBitUnpack_ok m k omega y hy ho hk hlen
  rw [hdec] at hr0
  have hr0' := ok_inj hr0
  obtain ⟨hkl, hbin⟩ := hprops h hr0'.symm
  -- invert the decoder
  unfold hintBitUnpack at hdec
  rw [if_neg (by omega)] at hdec
  have hmod : omega.toNat % 256 = omega.toNat := Nat.mod_eq_of_lt (by omega)
  simp only [dassert_dec m _ _ (show (decide (1 ≤ omega.toNat + k) && decide (omega.toNat + k < 256)) = true by simp; omega),
    dassert_dec m _ _ (show (y.length == omega.toNat + k) = true by simp [hlen]), ok_bind, hmod] at hdec
  obtain ⟨r, hr, hdec⟩ := bind_ok_inv hdec
  cases r with
  | none => rw [pure_eq] at hdec; have := ok_inj hdec; simp at this
  | some ih =>
    obtain ⟨index, h'⟩ := ih
    simp only [] at hdec
    rw [List.range_eq_range'] at hr
    obtain ⟨hsNew, f1, f2, f3, _, f5, _, _, _⟩ := outer_joint m y hy omega.toNat omega.toNat (omega.toNat + k) (Nat.le_refl _) (by omega)
      k 0 0 [] index h' (by omega) (by omega) hr
    simp only [List.reverse_nil, List.nil_append] at f1
    subst f1
    -- the leftover bytes are zero
    have hrest := mapM_pure (fun d => idx "conversion.rs:hint_bit_unpack:y_bytes[i]" y (index + d)) (fun d => y.getD (index + d) 0)
      (List.range (omega.toNat - index)) (fun d hd => by
        have := List.mem_range.mp hd
        rw [idx_ok _ y (index + d) (by omega), List.getD_eq_getElem?_getD, List.getElem?_eq_getElem (by omega)]; rfl)
    rw [hrest, ok_bind] at hdec
    by_cases hany : (((List.range (omega.toNat - index)).map (fun d => y.getD (index + d) 0)).any fun b => decide (b ≠ 0)) = true
    · rw [if_pos hany, pure_eq] at hdec; have := ok_inj hdec; simp at this
    · rw [if_neg hany] at hdec
      have hzero : ∀ p, index ≤ p → p < omega.toNat → y.getD p 0 = 0 := by
        intro p h1 h2
        have hn : ¬ ∃ x ∈ (List.range (omega.toNat - index)).map (fun d => y.getD (index + d) 0), decide (x ≠ 0) = true := by
          rw [← List.any_eq_true]; exact hany
        by_cases hz : y.getD p 0 = 0
        · exact hz
        · exact absurd ⟨y.getD p 0, List.mem_map.mpr ⟨p - index, List.mem_range.mpr (by omega), by rw [show index + (p - index) = p by omega]⟩,
            by simpa using hz⟩ hn
      have hh : h' = h := by
        obtain ⟨_, _, hdec⟩ := bind_ok_inv hdec
        rw [pure_eq] at hdec
        have := ok_inj hdec
        simpa using this
      subst hh
      -- run the encoder
      have hA0 : Agree y (List.replicate (omega.toNat + k) 0) 0 0 omega.toNat :=
        ⟨by rw [List.length_replicate, hlen], fun p hp => by
          rw [List.getElem?_replicate, if_pos (by omega), if_neg (by omega)]⟩
      obtain ⟨Y', g1, gA⟩ := f5 _ hA0
      have hYy : Y' = y := by
        apply List.ext_getElem?
        intro p
        by_cases hp : p < y.length
        · rw [gA.2 p hp]
          by_cases hc : p < index ∨ (omega.toNat ≤ p ∧ p < omega.toNat + (0 + k))
          · rw [if_pos hc]
          · rw [if_neg hc]
            have := hzero p (by omega) (by omega)
            rw [List.getD_eq_getElem?_getD, List.getElem?_eq_getElem hp] at this
            rw [List.getElem?_eq_getElem hp]
            simp only [Option.getD_some] at this
            rw [this]
        · rw [List.getElem?_eq_none (by rw [gA.1]; omega), List.getElem?_eq_none (by omega)]
      unfold hintBitPack
      rw [if_neg (by omega)]
      simp only [hkl]
      obtain ⟨bs, hbs, _, hbt⟩ := mapM_ok_len (fun p => isInRange m p 0 1) (fun r => r ∈ h') (fun b => b = true)
        (fun r hr' => ⟨true, isInRange_true m r 0 1 (by omega) (fun c hc => by
          rcases (hbin r hr').1.2 c hc with h0 | h1 <;> omega), rfl⟩) h' (fun a ha => ha)
      have hall : bs.all id = true := by rw [List.all_eq_true]; intro b hb; exact hbt b hb
      have d3 : dassertM m "conversion.rs:hint_bit_pack:debug_assert(Alg 20: h not 0/1)" (do
          let bs ← h'.mapM (fun p => isInRange m p 0 1)
          pure (bs.all id)) = .ok () := by
        apply dassertM_ok; rw [hbs, ok_bind, pure_eq, hall]
      have d4 : (h'.all fun p => decide (countOnes p ≤ omega)) = true := by
        rw [List.all_eq_true]; intro q hq
        have := (hbin q hq).2
        rw [countOnes_eq]; simp only [decide_eq_true_eq]; omega
      rw [dassert_dec m _ _ (show (decide (1 ≤ omega.toNat + k) && decide (omega.toNat + k < 256)) = true by simp; omega), ok_bind,
        dassert_dec m _ _ (show (omega.toNat + k == omega.toNat + k) = true by simp), ok_bind, d3, ok_bind, dassert_dec m _ _ d4, ok_bind,
        List.range_eq_range', g1, ok_bind, pure_eq, hYy]

/-- **what the decoder accepts is well formed**: count bytes never decrease and never exceed omega, the indices of each
    polynomial strictly increase (so none repeats), and every byte between the last count and position omega is zero.
    Contrapositive: a section violating any of these is rejected. -/
theorem hintBitUnpack_accepts_only_wellformed (m : Mode) (k : Nat) (omega : Int) (y : List Nat) (hy : ∀ b ∈ y, b < 256)
    (ho : 0 ≤ omega) (hk : 1 ≤ k ∧ omega.toNat + k < 256) (hlen : y.length = omega.toNat + k)
    (h : List Poly) (hdec : hintBitUnpack m k omega y = .ok (some h)) :
    hintWF y omega.toNat omega.toNat k 0 0 ∧
      ∀ p, y.getD (omega.toNat + k - 1) 0 ≤ p → p < omega.toNat → y.getD p 0 = 0 := by
  unfold hintBitUnpack at hdec
  rw [if_neg (by omega)] at hdec
  have hmod : omega.toNat % 256 = omega.toNat := Nat.mod_eq_of_lt (by omega)
  simp only [dassert_dec m _ _ (show (decide (1 ≤ omega.toNat + k) && decide (omega.toNat + k < 256)) = true by simp; omega),
    dassert_dec m _ _ (show (y.length == omega.toNat + k) = true by simp [hlen]), ok_bind, hmod] at hdec
  obtain ⟨r, hr, hdec⟩ := bind_ok_inv hdec
  cases r with
  | none => rw [pure_eq] at hdec; have := ok_inj hdec; simp at this
  | some ih =>
    obtain ⟨index, h'⟩ := ih
    simp only [] at hdec
    rw [List.range_eq_range'] at hr
    obtain ⟨hsNew, _, _, _, _, _, f6, _, f8⟩ := outer_joint m y hy omega.toNat omega.toNat (omega.toNat + k) (Nat.le_refl _) (by omega)
      k 0 0 [] index h' (by omega) (by omega) hr
    refine ⟨f6, ?_⟩
    have hidx : index = y.getD (omega.toNat + k - 1) 0 := by rw [f8 (by omega)]; congr 2
    have hrest := mapM_pure (fun d => idx "conversion.rs:hint_bit_unpack:y_bytes[i]" y (index + d)) (fun d => y.getD (index + d) 0)
      (List.range (omega.toNat - index)) (fun d hd => by
        have := List.mem_range.mp hd
        rw [idx_ok _ y (index + d) (by omega), List.getD_eq_getElem?_getD, List.getElem?_eq_getElem (by omega)]; rfl)
    rw [hrest, ok_bind] at hdec
    by_cases hany : (((List.range (omega.toNat - index)).map (fun d => y.getD (index + d) 0)).any fun b => decide (b ≠ 0)) = true
    · rw [if_pos hany, pure_eq] at hdec; have := ok_inj hdec; simp at this
    · intro p h1 h2
      rw [← hidx] at h1
      have hn : ¬ ∃ x ∈ (List.range (omega.toNat - index)).map (fun d => y.getD (index + d) 0), decide (x ≠ 0) = true := by
        rw [← List.any_eq_true]; exact hany
      by_cases hz : y.getD p 0 = 0
      · exact hz
      · exact absurd ⟨y.getD p 0, List.mem_map.mpr ⟨p - index, List.mem_range.mpr (by omega), by rw [show index + (p - index) = p by omega]⟩,
          by simpa using hz⟩ hn

end Fips204.Impl
