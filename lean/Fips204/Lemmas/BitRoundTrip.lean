import Fips204.Lemmas.Shapes
/-! `bit_pack` and `bit_unpack` are mutually inverse: value-tracking accumulator invariants on both sides and uniqueness
    of fixed-length little-endian representations. -/
namespace Fips204.Impl
open Fips204 Fips204.Gen Fips204.K

theorem toUu32_of_nonneg (x : Int) (h0 : 0 ≤ x) (h1 : x ≤ 4294967295) : IT.u32.toU x = x.toNat := by
  unfold IT.toU; simp only [IT.modulus]; omega

theorem ofUu32_small (n : Nat) (h : n ≤ 4294967295) : IT.u32.ofU n = (n : Int) := by
  unfold IT.ofU IT.wrap; simp only [IT.lo, IT.modulus]; omega

theorem boru32_disjoint (a b k : Nat) (hb : b < 2 ^ k) (hs : a * 2 ^ k + b ≤ 4294967295) :
    bor .u32 (b : Int) ((a * 2 ^ k : Nat) : Int) = ((a * 2 ^ k + b : Nat) : Int) := by
  have h1 : IT.u32.toU ((a * 2 ^ k : Nat) : Int) = a * 2 ^ k := by
    rw [toUu32_of_nonneg _ (by omega) (by omega)]; exact Int.toNat_natCast _
  have h2 : IT.u32.toU (b : Int) = b := by
    rw [toUu32_of_nonneg _ (by omega) (by omega)]; simp
  unfold bor
  rw [h1, h2, Nat.or_comm, ← Nat.shiftLeft_eq, ← Nat.shiftLeft_add_eq_or_of_lt hb, Nat.shiftLeft_eq]
  exact ofUu32_small _ (by omega)

/-- `drainBytes` on a natural-number accumulator: value conserved, output digits are bytes -/
theorem drainBytes_val : ∀ (fuel : Nat) (t bi : Nat) (out : List Nat), bi < 8 * (fuel + 1) → t < 2 ^ bi → (∀ x ∈ out, x < 256) →
    ∃ (t' bi' : Nat) (out' : List Nat), drainBytes fuel (t : Int) bi out = ((t' : Int), bi', out') ∧ bi' ≤ 7 ∧ t' < 2 ^ bi' ∧
      8 * out'.length + bi' = 8 * out.length + bi ∧ (∀ x ∈ out', x < 256) ∧
      valR 256 out' + t' * 256 ^ out'.length = valR 256 out + t * 256 ^ out.length := by
  intro fuel
  induction fuel with
  | zero => intro t bi out h ht ho; exact ⟨t, bi, out, rfl, by omega, ht, rfl, ho, rfl⟩
  | succ fuel ih =>
    intro t bi out h ht ho
    unfold drainBytes
    by_cases hb : bi > 7
    · rw [if_pos hb]
      have hdiv : t / 256 < 2 ^ (bi - 8) := by
        apply Nat.div_lt_of_lt_mul
        have : (2:Nat) ^ bi = 256 * 2 ^ (bi - 8) := by
          rw [show (256:Nat) = 2 ^ 8 by decide, ← Nat.pow_add]; congr 1; omega
        omega
      have e1 : (t : Int) / 256 = ((t / 256 : Nat) : Int) := by simp
      have e2 : ((t : Int) % 256).toNat = t % 256 := by omega
      rw [e1, e2]
      obtain ⟨t', bi', out', h1, h2, h3, h4, h5, h6⟩ := ih (t / 256) (bi - 8) (t % 256 :: out) (by omega) hdiv
        (fun x hx => by
          rcases List.mem_cons.mp hx with rfl | hx
          · exact Nat.mod_lt _ (by decide)
          · exact ho x hx)
      refine ⟨t', bi', out', h1, h2, h3, by rw [h4, List.length_cons]; omega, h5, ?_⟩
      rw [h6]
      simp only [valR, List.length_cons, Nat.pow_succ]
      have := Nat.div_add_mod t 256
      generalize t / 256 = q at *
      generalize t % 256 = r at *
      subst this
      grind
    · rw [if_neg hb]; exact ⟨t, bi, out, rfl, by omega, ht, rfl, ho, rfl⟩

/-- encoder state after `n` coefficients whose fields have value `F` -/
def PInv (bl n F : Nat) (st : Int × Nat × List Nat) : Prop :=
  ∃ t : Nat, st.1 = (t : Int) ∧ t < 2 ^ st.2.1 ∧ st.2.1 ≤ 7 ∧ 8 * st.2.2.length + st.2.1 = n * bl ∧ (∀ x ∈ st.2.2, x < 256) ∧
    valR 256 st.2.2 + t * 256 ^ st.2.2.length = F

theorem packStep_val (m : Mode) (a b : Int) (bl outLen : Nat) (hbl : bl ≤ 20) (ha : 0 ≤ a) (hab : a + b < 2 ^ bl)
    (n F : Nat) (st : Int × Nat × List Nat) (coeff : Int) (hc : -a ≤ coeff ∧ coeff ≤ b) (hinv : PInv bl n F st)
    (hroom : (n + 1) * bl ≤ 8 * outLen) :
    ∃ st', packStep m a b bl outLen st coeff = .ok st' ∧ PInv bl (n + 1) (F + fld a b coeff * (2 ^ bl) ^ n) st' := by
  obtain ⟨temp, bi, out⟩ := st
  obtain ⟨t, ht, htlt, hbi, hcnt, hout, hval⟩ := hinv
  simp only at ht htlt hbi hcnt hout hval
  subst ht
  -- the field
  have hp20 : (2:Int) ^ bl ≤ 1048576 := by
    have : (2:Nat) ^ bl ≤ 2 ^ 20 := Nat.pow_le_pow_right (by decide) hbl
    have : ((2 ^ bl : Nat) : Int) ≤ ((2 ^ 20 : Nat) : Int) := Int.ofNat_le.mpr this
    simpa using this
  have hv : (if a > 0 then absI (b - coeff) else absI coeff) = ((fld a b coeff : Nat) : Int) := by
    unfold fld
    by_cases ha0 : a = 0
    · rw [if_neg (by omega), if_pos ha0, absI_eq, if_neg (by omega)]; omega
    · rw [if_pos (by omega), if_neg ha0, absI_eq, if_neg (by omega)]; omega
  have hfI : ((fld a b coeff : Nat) : Int) < 2 ^ bl := by
    unfold fld
    by_cases ha0 : a = 0
    · rw [if_pos ha0]; omega
    · rw [if_neg ha0]; omega
  have hf : fld a b coeff < 2 ^ bl := by
    have : ((fld a b coeff : Nat) : Int) < ((2 ^ bl : Nat) : Int) := by simpa using hfI
    exact Int.ofNat_lt.mp this
  have hf20 : fld a b coeff < 1048576 := by
    have : (2:Nat) ^ bl ≤ 2 ^ 20 := Nat.pow_le_pow_right (by decide) hbl
    omega
  have hp7 : (2:Nat) ^ bi ≤ 128 := by
    have : (2:Nat) ^ bi ≤ 2 ^ 7 := Nat.pow_le_pow_right (by decide) hbi
    simpa using this
  have hprod : fld a b coeff * 2 ^ bi ≤ 1048575 * 128 := Nat.mul_le_mul (by omega) hp7
  have hsh : shl .u32 m "conversion.rs:bit_pack:<<bit_index" ((fld a b coeff : Nat) : Int) (bi : Int) =
      .ok (((fld a b coeff * 2 ^ bi : Nat)) : Int) := by
    unfold shl
    have hcnd : (0:Int) ≤ (bi : Int) ∧ (bi : Int) < (IT.u32.bits : Int) := by
      constructor
      · exact Int.natCast_nonneg _
      · show (bi : Int) < ((32 : Nat) : Int); exact Int.ofNat_lt.mpr (by omega)
    rw [if_pos hcnd, Int.toNat_natCast, pure_eq]
    congr 1
    have e : ((fld a b coeff : Nat) : Int) * 2 ^ bi = ((fld a b coeff * 2 ^ bi : Nat) : Int) := by simp
    rw [e]
    unfold IT.wrap; simp only [IT.lo, IT.modulus]; omega
  have hbor : bor .u32 (t : Int) (((fld a b coeff * 2 ^ bi : Nat)) : Int) = ((fld a b coeff * 2 ^ bi + t : Nat) : Int) :=
    boru32_disjoint _ t bi htlt (by omega)
  have hnew : fld a b coeff * 2 ^ bi + t < 2 ^ (bi + bl) := by
    rw [Nat.pow_add]
    have : fld a b coeff * 2 ^ bi + 2 ^ bi ≤ 2 ^ bl * 2 ^ bi := by
      have : (fld a b coeff + 1) * 2 ^ bi ≤ 2 ^ bl * 2 ^ bi := Nat.mul_le_mul_right _ hf
      rw [Nat.add_mul, Nat.one_mul] at this; exact this
    rw [Nat.mul_comm (2 ^ bi)]; omega
  obtain ⟨t', bi', out', h1, h2, h3, h4, h5, h6⟩ := drainBytes_val 8 (fld a b coeff * 2 ^ bi + t) (bi + bl) out (by omega) hnew hout
  have hlen : ¬ out'.length > outLen := by
    have : (n + 1) * bl = n * bl + bl := by rw [Nat.add_mul, Nat.one_mul]
    omega
  refine ⟨((t' : Int), bi', out'), ?_, ⟨t', rfl, h3, h2, ?_, h5, ?_⟩⟩
  · unfold packStep
    simp only [hv, hsh, ok_bind, hbor, h1, if_neg hlen, pure_eq]
  · simp only
    have : (n + 1) * bl = n * bl + bl := by rw [Nat.add_mul, Nat.one_mul]
    omega
  · simp only
    rw [h6, ← hval]
    have e : ((2:Nat) ^ bl) ^ n = 2 ^ bi * 256 ^ out.length := by
      rw [← Nat.pow_mul, Nat.mul_comm, ← hcnt, Nat.pow_add, Nat.pow_mul, show (2:Nat) ^ 8 = 256 by decide, Nat.mul_comm]
    rw [e]; grind

theorem packFold_val (m : Mode) (a b : Int) (bl outLen : Nat) (hbl : bl ≤ 20) (ha : 0 ≤ a) (hab : a + b < 2 ^ bl) :
    ∀ (w : List Int) (n F : Nat) (st : Int × Nat × List Nat), (∀ c ∈ w, -a ≤ c ∧ c ≤ b) → PInv bl n F st →
      (n + w.length) * bl ≤ 8 * outLen →
      ∃ st', w.foldlM (packStep m a b bl outLen) st = .ok st' ∧
        PInv bl (n + w.length) (F + (2 ^ bl) ^ n * numF (2 ^ bl) (w.map (fld a b))) st' := by
  intro w
  induction w with
  | nil => intro n F st _ h _; exact ⟨st, by simp [pure_eq], by simpa [numF] using h⟩
  | cons c cs ih =>
    intro n F st hw h hroom
    simp only [List.length_cons] at hroom
    obtain ⟨st1, hs1, hi1⟩ := packStep_val m a b bl outLen hbl ha hab n F st c (hw c (List.mem_cons_self ..)) h
      (by have : (n + (cs.length + 1)) * bl = (n + 1) * bl + cs.length * bl := by grind
          omega)
    obtain ⟨st2, hs2, hi2⟩ := ih (n + 1) _ st1 (fun x hx => hw x (List.mem_cons_of_mem _ hx)) hi1
      (by rw [show n + 1 + cs.length = n + (cs.length + 1) by omega]; exact hroom)
    refine ⟨st2, by rw [List.foldlM_cons, hs1, ok_bind]; exact hs2, ?_⟩
    have e1 : n + (c :: cs).length = n + 1 + cs.length := by simp only [List.length_cons]; omega
    have e2 : F + (2 ^ bl) ^ n * numF (2 ^ bl) ((c :: cs).map (fld a b)) =
        F + fld a b c * (2 ^ bl) ^ n + (2 ^ bl) ^ (n + 1) * numF (2 ^ bl) (cs.map (fld a b)) := by
      simp only [List.map_cons, numF, Nat.pow_succ]; grind
    rw [e1, e2]; exact hi2

/-- **`bit_pack` in terms of values**: on an in-range polynomial it returns `32 * bitlen` bytes whose little-endian
    value is the base-`2^bitlen` value of the coefficient fields -/
theorem bitPack_val (m : Mode) (w : Poly) (a b : Int) (bl : Nat) (ha : 0 ≤ a ∧ a < 1048576) (hb : 1 ≤ b ∧ b < 1048576)
    (hbl : bitLen m (a + b) = .ok bl) (hbl2 : 1 ≤ bl ∧ bl ≤ 20) (hab : a + b < 2 ^ bl) (hw : ∀ c ∈ w, -a ≤ c ∧ c ≤ b)
    (hlen : w.length = 256) :
    ∃ out, bitPack m w a b (32 * bl) = .ok out ∧ out.length = 32 * bl ∧ (∀ x ∈ out, x < 256) ∧
      numF 256 out = numF (2 ^ bl) (w.map (fld a b)) := by
  have h0 : PInv bl 0 0 ((0 : Int), 0, []) := ⟨0, rfl, by simp, by simp, by simp, by simp, by simp [valR]⟩
  obtain ⟨st', hfold, hinv⟩ := packFold_val m a b bl (32 * bl) hbl2.2 ha.1 hab w 0 0 (0, 0, []) hw h0 (by rw [hlen]; omega)
  obtain ⟨temp, bi, out⟩ := st'
  obtain ⟨t, _, htlt, hbi, hcnt, hout, hval⟩ := hinv
  simp only at htlt hbi hcnt hout hval
  rw [hlen] at hcnt
  have hbi0 : bi = 0 := by omega
  have ht0 : t = 0 := by rw [hbi0] at htlt; simpa using htlt
  have hol : out.length = 32 * bl := by omega
  rw [ht0] at hval
  simp only [Nat.zero_mul, Nat.add_zero, Nat.pow_zero, Nat.one_mul, Nat.zero_add] at hval
  refine ⟨out.reverse, ?_, by simp [hol], fun x hx => hout x (List.mem_reverse.mp hx), by rw [← valR_eq_numF_reverse, hval]⟩
  unfold bitPack
  have d1 := dassert_dec m "conversion.rs:bit_pack:debug_assert(Alg 17: a out of range)" (decide (0 ≤ a) && decide (a < 1048576)) (by simp; omega)
  have d2 := dassert_dec m "conversion.rs:bit_pack:debug_assert(Alg 17: b out of range)" (decide (1 ≤ b) && decide (b < 1048576)) (by simp; omega)
  have d3 := dassertM_ok m "conversion.rs:bit_pack:debug_assert(Alg 17: w out of range)" _ (isInRange_true m w a b (by omega) hw)
  rw [d1, ok_bind, d2, ok_bind, d3, ok_bind, arith_i32 _ _ _ (by omega) (by omega), ok_bind, hbl]
  have hbeq : (w.length * bl == 32 * bl * 8) = true := by
    rw [hlen]; simp only [beq_iff_eq]; omega
  simp only [ok_bind, pure_eq, hbeq, dassertM_true, hfold]
  have : 32 * bl - out.reverse.length = 0 := by simp [hol]
  rw [this]; simp

/-- **`bit_pack ∘ bit_unpack = id`**: whatever byte string `bit_unpack` accepts, re-packing the decoded coefficients
    returns the same bytes -/
theorem bitPack_bitUnpack (m : Mode) (v : List Nat) (a b : Int) (bl : Nat) (ha : 0 ≤ a ∧ a < 1048576) (hb : 1 ≤ b ∧ b < 1048576)
    (hbl : bitLen m (a + b) = .ok bl) (hbl2 : 1 ≤ bl ∧ bl ≤ 20) (hab : a + b < 2 ^ bl) (hv : ∀ x ∈ v, x < 256)
    (hlen : v.length = 32 * bl) (w : Poly) (h : bitUnpack m v a b = .ok (some w)) : bitPack m w a b (32 * bl) = .ok v := by
  obtain ⟨w', hw', hf, hval, he⟩ := bitUnpack_shape m v a b bl ha hb hbl hbl2 hv hlen
  rw [he] at h
  unfold isInRange at h
  rw [arith_i32 _ _ _ (by omega) (by omega), ok_bind, pure_eq, ok_bind] at h
  by_cases hall : (w'.all fun e => decide (e ≥ -a) && decide (e ≤ b)) = true
  · rw [if_pos hall, pure_eq] at h
    have : w' = w := by have := ok_inj h; simpa using this
    subst this
    have hr : ∀ c ∈ w', -a ≤ c ∧ c ≤ b := by
      intro c hc
      have := List.all_eq_true.mp hall c hc
      simp only [Bool.and_eq_true, decide_eq_true_eq] at this
      omega
    obtain ⟨out, ho, hol, hob, hov⟩ := bitPack_val m w' a b bl ha hb hbl hbl2 hab hr hw'
    rw [ho]
    congr 1
    exact numF_inj 256 (by decide) out v (by rw [hol, hlen]) hob hv (by rw [hov, hval])
  · rw [if_neg hall, pure_eq] at h
    have := ok_inj h
    simp at this

end Fips204.Impl

namespace Fips204.Impl
open Fips204 Fips204.Gen Fips204.K

/-- the domain on which `fld` is injective: what either codec direction guarantees of a coefficient -/
def fldDom (a b : Int) (c : Int) : Prop := (a = 0 → 0 ≤ c) ∧ (a ≠ 0 → c ≤ b)

theorem map_fld_inj (a b : Int) : ∀ l1 l2 : List Int, l1.map (fld a b) = l2.map (fld a b) → (∀ c ∈ l1, fldDom a b c) →
    (∀ c ∈ l2, fldDom a b c) → l1 = l2 := by
  intro l1
  induction l1 with
  | nil => intro l2 h _ _; cases l2 with
    | nil => rfl
    | cons _ _ => simp at h
  | cons c cs ih =>
    intro l2 h h1 h2
    cases l2 with
    | nil => simp at h
    | cons e es =>
      simp only [List.map_cons, List.cons.injEq] at h
      have hc := h1 c (List.mem_cons_self ..)
      have he := h2 e (List.mem_cons_self ..)
      have : c = e := by
        have h0 := h.1
        unfold fld at h0
        unfold fldDom at hc he
        by_cases ha : a = 0
        · rw [if_pos ha, if_pos ha] at h0; have := hc.1 ha; have := he.1 ha; omega
        · rw [if_neg ha, if_neg ha] at h0; have := hc.2 ha; have := he.2 ha; omega
      rw [this, ih es h.2 (fun x hx => h1 x (List.mem_cons_of_mem _ hx)) (fun x hx => h2 x (List.mem_cons_of_mem _ hx))]

theorem fld_lt_of_fieldOk (a b : Int) (bl : Nat) (c : Int) (h : fieldOk a b bl c) : fld a b c < 2 ^ bl ∧ fldDom a b c := by
  unfold fieldOk at h
  unfold fld fldDom
  have e : ((2:Int) ^ bl) = (((2:Nat) ^ bl : Nat) : Int) := by simp
  by_cases ha : a = 0
  · rw [if_pos ha] at h ⊢
    refine ⟨?_, fun _ => h.1, fun h' => absurd ha h'⟩
    have : ((c.toNat : Nat) : Int) < (((2:Nat) ^ bl : Nat) : Int) := by rw [← e]; omega
    exact Int.ofNat_lt.mp this
  · rw [if_neg ha] at h ⊢
    refine ⟨?_, fun h' => absurd h' ha, fun _ => h.2⟩
    have : (((b - c).toNat : Nat) : Int) < (((2:Nat) ^ bl : Nat) : Int) := by rw [← e]; omega
    exact Int.ofNat_lt.mp this

theorem fld_lt_of_range (a b : Int) (bl : Nat) (ha : 0 ≤ a) (hab : a + b < 2 ^ bl) (c : Int) (h : -a ≤ c ∧ c ≤ b) :
    fld a b c < 2 ^ bl ∧ fldDom a b c := by
  unfold fld fldDom
  have e : ((2:Int) ^ bl) = (((2:Nat) ^ bl : Nat) : Int) := by simp
  by_cases ha0 : a = 0
  · rw [if_pos ha0]
    refine ⟨?_, fun _ => by omega, fun h' => absurd ha0 h'⟩
    have : ((c.toNat : Nat) : Int) < (((2:Nat) ^ bl : Nat) : Int) := by rw [← e]; omega
    exact Int.ofNat_lt.mp this
  · rw [if_neg ha0]
    refine ⟨?_, fun h' => absurd h' ha0, fun _ => h.2⟩
    have : (((b - c).toNat : Nat) : Int) < (((2:Nat) ^ bl : Nat) : Int) := by rw [← e]; omega
    exact Int.ofNat_lt.mp this

/-- **`bit_unpack ∘ bit_pack = id`** on every in-range polynomial -/
theorem bitUnpack_bitPack (m : Mode) (w : Poly) (a b : Int) (bl : Nat) (ha : 0 ≤ a ∧ a < 1048576) (hb : 1 ≤ b ∧ b < 1048576)
    (hbl : bitLen m (a + b) = .ok bl) (hbl2 : 1 ≤ bl ∧ bl ≤ 20) (hab : a + b < 2 ^ bl) (hw : ∀ c ∈ w, -a ≤ c ∧ c ≤ b)
    (hlen : w.length = 256) :
    ∃ v, bitPack m w a b (32 * bl) = .ok v ∧ v.length = 32 * bl ∧ (∀ x ∈ v, x < 256) ∧ bitUnpack m v a b = .ok (some w) := by
  obtain ⟨v, hv, hvl, hvb, hvv⟩ := bitPack_val m w a b bl ha hb hbl hbl2 hab hw hlen
  refine ⟨v, hv, hvl, hvb, ?_⟩
  obtain ⟨w', hw', hf, hval, he⟩ := bitUnpack_shape m v a b bl ha hb hbl hbl2 hvb hvl
  have hP : 1 ≤ (2:Nat) ^ bl := Nat.one_le_two_pow
  have hmaps : w'.map (fld a b) = w.map (fld a b) :=
    numF_inj (2 ^ bl) hP _ _ (by simp [hw', hlen])
      (fun d hd => by obtain ⟨c, hc, rfl⟩ := List.mem_map.mp hd; exact (fld_lt_of_fieldOk a b bl c (hf c hc)).1)
      (fun d hd => by obtain ⟨c, hc, rfl⟩ := List.mem_map.mp hd; exact (fld_lt_of_range a b bl ha.1 hab c (hw c hc)).1)
      (by rw [hval, hvv])
  have heq : w' = w := map_fld_inj a b w' w hmaps (fun c hc => (fld_lt_of_fieldOk a b bl c (hf c hc)).2)
    (fun c hc => (fld_lt_of_range a b bl ha.1 hab c (hw c hc)).2)
  subst heq
  rw [he, isInRange_true m w' a b (by omega) hw, ok_bind]
  simp [pure_eq]

end Fips204.Impl
