import Fips204.Lemmas.Kernels
/-! Equational lemmas, part 2: hints, rounding, coefficient samplers, zeta table. -/
namespace Fips204.K
open Fips204 Fips204.Gen

/-- the two gamma2 values that occur -/
def G2 (g : Int) : Prop := g = 95232 ∨ g = 261888

theorem decompose_eq (m : Mode) (g r : Int) (hg : G2 g) (h1 : -2143289344 < r) (h2 : r < 2143289344) :
    decompose m g r = .ok (Spec.decompose g r) := by
  rcases hg with rfl | rfl
  · exact decompose_44_eq m r h1 h2
  · exact decompose_65_eq m r h1 h2

theorem high_bits_eq (m : Mode) (g r : Int) (hg : G2 g) (h1 : -2143289344 < r) (h2 : r < 2143289344) :
    high_bits m g r = .ok (Spec.highBits g r) := by
  unfold high_bits Spec.highBits
  simp only [decompose_eq m g r hg h1 h2, pure_eq, ok_bind, error_bind]

theorem low_bits_eq (m : Mode) (g r : Int) (hg : G2 g) (h1 : -2143289344 < r) (h2 : r < 2143289344) :
    low_bits m g r = .ok (Spec.lowBits g r) := by
  unfold low_bits Spec.lowBits
  simp only [decompose_eq m g r hg h1 h2, pure_eq, ok_bind, error_bind]

theorem make_hint_eq (m : Mode) (g z r : Int) (hg : G2 g) (h1 : -2143289344 < r) (h2 : r < 2143289344)
    (h3 : -2143289344 < r + z) (h4 : r + z < 2143289344) :
    make_hint m g z r = .ok (Spec.makeHint g z r) := by
  unfold make_hint Spec.makeHint
  simp (disch := omega) only [high_bits_eq m g r hg h1 h2, high_bits_eq m g (r + z) hg h3 h4, arith_i32,
    pure_eq, ok_bind, error_bind]

/-- range of Spec.decompose's first component -/
theorem spec_decompose_r1_44 (r : Int) : 0 ≤ (Spec.decompose 95232 r).1 ∧ (Spec.decompose 95232 r).1 ≤ 43 := by
  unfold Spec.decompose modpm
  have hq := Int.emod_lt_of_pos r (show (0:Int) < 8380417 by decide)
  have hq0 := Int.emod_nonneg r (show (8380417:Int) ≠ 0 by decide)
  simp only [Q] at *
  generalize r % 8380417 = rp at *
  repeat' split
  all_goals (try dsimp only) <;> omega

theorem spec_decompose_r1_65 (r : Int) : 0 ≤ (Spec.decompose 261888 r).1 ∧ (Spec.decompose 261888 r).1 ≤ 15 := by
  unfold Spec.decompose modpm
  have hq := Int.emod_lt_of_pos r (show (0:Int) < 8380417 by decide)
  have hq0 := Int.emod_nonneg r (show (8380417:Int) ≠ 0 by decide)
  simp only [Q] at *
  generalize r % 8380417 = rp at *
  repeat' split
  all_goals (try dsimp only) <;> omega

theorem use_hint_44_eq (m : Mode) (h r : Int) (hh : h = 0 ∨ h = 1) (h1 : -2143289344 < r) (h2 : r < 2143289344) :
    use_hint m 95232 h r = .ok (Spec.useHint 95232 h r) := by
  unfold use_hint Spec.useHint
  have hr := spec_decompose_r1_44 r
  have e1 : band .i32 95232 131072 = 0 := by decide +kernel
  simp only [decompose_eq m 95232 r (Or.inl rfl) h1 h2, pure_eq, ok_bind, error_bind, e1, Q]
  generalize Spec.decompose 95232 r = d at *
  obtain ⟨r1, r0⟩ := d
  dsimp only at *
  rcases hh with rfl | rfl
  · simp
  · simp only [show (decide ((1:Int) = 0)) = false by decide, Bool.false_eq_true, if_false, decide_true, if_true,
      decide_eq_true_eq, true_and]
    by_cases h0 : r0 > 0
    · simp only [h0, if_true]
      by_cases h43 : r1 = 43
      · subst h43; simp
      · simp only [h43, if_false]; ksimp; congr 1; omega
    · simp only [h0, if_false]
      have : r0 ≤ 0 := by omega
      simp only [this, if_true]
      by_cases h00 : r1 = 0
      · subst h00; simp
      · simp only [h00, if_false]; ksimp; congr 1; omega

theorem use_hint_65_eq (m : Mode) (h r : Int) (hh : h = 0 ∨ h = 1) (h1 : -2143289344 < r) (h2 : r < 2143289344) :
    use_hint m 261888 h r = .ok (Spec.useHint 261888 h r) := by
  unfold use_hint Spec.useHint
  have hr := spec_decompose_r1_65 r
  have e1 : band .i32 261888 131072 = 131072 := by decide +kernel
  simp only [decompose_eq m 261888 r (Or.inr rfl) h1 h2, pure_eq, ok_bind, error_bind, e1, Q,
    show ((8380417:Int) - 1) / (2 * 261888) = 16 by decide]
  generalize Spec.decompose 261888 r = d at *
  obtain ⟨r1, r0⟩ := d
  dsimp only at *
  rcases hh with rfl | rfl
  · simp
  · simp only [show (decide ((1:Int) = 0)) = false by decide, show (decide ((131072:Int) = 0)) = false by decide,
      Bool.false_eq_true, if_false, decide_eq_true_eq, true_and]
    by_cases h0 : r0 > 0
    · simp only [h0, if_true]
      ksimp [band32_15]
    · simp only [h0, if_false]
      have : r0 ≤ 0 := by omega
      simp only [this, if_true]
      by_cases h00 : r1 = 0
      · subst h00
        have : band .i32 (-1) 15 = 15 := by decide +kernel
        ksimp [show (0:Int) - 1 = -1 by decide, this]
        rfl
      · ksimp [band32_15]

theorem use_hint_eq (m : Mode) (g h r : Int) (hg : G2 g) (hh : h = 0 ∨ h = 1)
    (h1 : -2143289344 < r) (h2 : r < 2143289344) :
    use_hint m g h r = .ok (Spec.useHint g h r) := by
  rcases hg with rfl | rfl
  · exact use_hint_44_eq m h r hh h1 h2
  · exact use_hint_65_eq m h r hh h1 h2

/-! ### Power2Round -/
theorem power2round_eq (m : Mode) (r : Int) (h0 : 0 ≤ r) (h1 : r < 8380417) :
    (do let r1 ← power2round_r1 m r; let r0 ← power2round_r0 m r r1; pure (r1, r0)) = .ok (Spec.power2round r) := by
  unfold power2round_r1 power2round_r0 Spec.power2round modpm
  simp only [Q]
  have e : r % 8380417 = r := Int.emod_eq_of_lt h0 h1
  have hw := wrap32_id ((r + 4096 - 1) / 8192 * 8192) (by omega) (by omega)
  ksimp [hw, e]
  congr 1
  repeat' split
  all_goals first | omega | (apply Prod.ext <;> dsimp only <;> omega)

theorem power2round_check_eq (m : Mode) (r : Int) (h0 : 0 ≤ r) (h1 : r < 8380417) :
    power2round_check m r (Spec.power2round r).1 (Spec.power2round r).2 = .ok true := by
  unfold power2round_check Spec.power2round modpm
  simp only [Q]
  have e : r % 8380417 = r := Int.emod_eq_of_lt h0 h1
  simp only [e]
  split
  all_goals
    (try dsimp only)
    rw [wrap32_id _ (by omega) (by omega)]
    ksimp
    simp; omega

/-! ### CoeffFromThreeBytes / CoeffFromHalfByte -/
theorem coeff3_eq (m : Mode) (b0 b1 b2 : Int) (h0 : 0 ≤ b0 ∧ b0 ≤ 255) (h1 : 0 ≤ b1 ∧ b1 ≤ 255)
    (h2 : 0 ≤ b2 ∧ b2 ≤ 255) :
    coeff_from_three_bytes m false b0 b1 b2 = .ok (Spec.coeffFromThreeBytes b0 b1 b2) := by
  unfold coeff_from_three_bytes Spec.coeffFromThreeBytes
  have e0 := band8_127 b2 h2.1 h2.2
  have w1 := wrap32_id (b2 % 128 * 65536) (by omega) (by omega)
  have w2 := wrap32_id (b1 * 256) (by omega) (by omega)
  have e1 := bor32_add_65536 (b2 % 128 * 65536) (b1 * 256) (by omega) (by omega) (by omega) (by omega) (by omega)
  have e2 := bor32_add_256 (b2 % 128 * 65536 + b1 * 256) b0 (by omega) (by omega) (by omega) (by omega) (by omega)
  have e3 : (if b2 > 127 then b2 - 128 else b2) = b2 % 128 := by split <;> omega
  have e4 : b2 % 128 * 65536 + b1 * 256 + b0 = 65536 * (b2 % 128) + 256 * b1 + b0 := by omega
  simp only [Q, Bool.false_eq_true, if_false, pure_eq, ok_bind, error_bind, e0, w1, w2, e1, e2, e3, e4,
    decide_eq_true_eq]
  split <;> rfl

/-- in constant-time test mode the three-byte sampler never rejects -/
theorem coeff3_ctest_some (m : Mode) (b0 b1 b2 : Int) (h0 : 0 ≤ b0 ∧ b0 ≤ 255) (h1 : 0 ≤ b1 ∧ b1 ≤ 255)
    (h2 : 0 ≤ b2 ∧ b2 ≤ 255) :
    coeff_from_three_bytes m true b0 b1 b2 = .ok (some (65536 * (b2 % 64) + 256 * b1 + b0)) := by
  unfold coeff_from_three_bytes
  have e0'' : b2 % 128 % 64 = b2 % 64 := by omega
  have hb : 0 ≤ b2 % 128 ∧ b2 % 128 ≤ 2147483647 := by omega
  obtain ⟨c, hc⟩ : ∃ c, b2 % 64 = c := ⟨_, rfl⟩
  have hc1 : 0 ≤ c ∧ c ≤ 63 := by omega
  have e4 : c * 65536 + b1 * 256 + b0 = 65536 * c + 256 * b1 + b0 := by omega
  have e5 : 65536 * c + 256 * b1 + b0 < 8380417 := by omega
  have w1 := wrap32_id (c * 65536) (by omega) (by omega)
  have w2 := wrap32_id (b1 * 256) (by omega) (by omega)
  have e1 := bor32_add_65536 (c * 65536) (b1 * 256) (by omega) (by omega) (by omega) (by omega) (by omega)
  have e2 := bor32_add_256 (c * 65536 + b1 * 256) b0 (by omega) (by omega) (by omega) (by omega) (by omega)
  have e0 := band8_127 b2 h2.1 h2.2
  have e0' := band32_63 (b2 % 128) hb.1 hb.2
  simp only [Q, if_true, pure_eq, ok_bind, e0, e0', e0'', hc, w1, w2, e1, e2, e4, e5, decide_true]

theorem coeffhalf_eq (m : Mode) (eta b : Int) (he : eta = 2 ∨ eta = 4) (hb : 0 ≤ b ∧ b ≤ 15) :
    coeff_from_half_byte m false eta b = .ok (Spec.coeffFromHalfByte eta b) := by
  unfold coeff_from_half_byte Spec.coeffFromHalfByte
  rcases he with rfl | rfl
  · by_cases h15 : b < 15
    · ksimp [h15]
      simp (disch := omega) [h15, arith_i32, dassertM_true, ok_bind]
      omega
    · ksimp [h15]
      simp [h15, dassertM_true, ok_bind]
  · by_cases h9 : b < 9
    · ksimp [h9]
      simp (disch := omega) [h9, arith_i32, dassertM_true, ok_bind]
    · ksimp [h9]
      simp [h9, dassertM_true, ok_bind]

end Fips204.K
