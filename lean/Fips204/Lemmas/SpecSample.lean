/-
  Lemmas.SpecSample — the crate's samplers are FIPS 204 Algorithms 29, 30, 32 as written (`Spec/Sample.lean`), on the same stream.
-/
import Fips204.Spec.Sample
import Fips204.Lemmas.SpecCodec
import Fips204.Lemmas.Samplers
import Fips204.Props.C15
import Fips204.Lemmas.KeygenOk
import Fips204.Lemmas.SignOk
import Fips204.Lemmas.SpecEncode
namespace Fips204.Impl
open Fips204 Fips204.Gen

/-- a specification result as a model result: running out of stream is the model-only outcome `Fault.fuel` -/
def ofSpec {α} (site : String) : Option α → M α
  | some a => .ok a
  | none => .error (.fuel site)

/-! ### RejNTTPoly / ExpandA -/

theorem rejNttLoop_is_spec (m : Mode) : ∀ (fuel : Nat) (s : List Nat) (acc : List Int), (∀ b ∈ s, b < 256) →
    rejNttLoop m false fuel s acc = ofSpec "hashing.rs:rej_ntt_poly:stream" (Spec.rejNtt fuel s acc) := by
  intro fuel
  induction fuel with
  | zero => intro s acc _; rfl
  | succ n ih =>
    intro s acc hs
    unfold rejNttLoop Spec.rejNtt
    by_cases hl : acc.length ≥ 256
    · rw [if_pos hl, if_pos hl]; rfl
    · rw [if_neg hl, if_neg hl]
      match s, hs with
      | [], _ => rfl
      | [_], _ => rfl
      | [_, _], _ => rfl
      | b0 :: b1 :: b2 :: rest, hs =>
        have h0 : b0 < 256 := hs b0 (by simp)
        have h1 : b1 < 256 := hs b1 (by simp)
        have h2 : b2 < 256 := hs b2 (by simp)
        have hr : ∀ b ∈ rest, b < 256 := fun b hb => hs b (by simp [hb])
        simp only []
        rw [Props.C15.coeff_from_three_bytes_spec m b0 b1 b2 (by omega) (by omega) (by omega), ok_bind]
        cases Spec.coeffFromThreeBytes ↑b0 ↑b1 ↑b2 with
        | none => exact ih rest acc hr
        | some v => exact ih rest (v :: acc) hr

theorem rejNttPoly_is_spec (m : Mode) (O : Oracles) (hO : OracleOk O) (rho : List Nat) (hr : rho.length = 34) :
    rejNttPoly m O false rho = ofSpec "hashing.rs:rej_ntt_poly:stream" (Spec.rejNTTPoly (O.g rho (1680 * O.fuelScale))) := by
  unfold rejNttPoly Spec.rejNTTPoly
  have d : (rho.length == 34) = true := by rw [hr]; rfl
  rw [dassert_dec m _ _ d, ok_bind, hO.glen]
  exact rejNttLoop_is_spec m _ _ _ (hO.gbyte rho _)


theorem ofSpec_bind {α β} (site : String) (x : Option α) (f : α → Option β) :
    (ofSpec site x >>= fun a => ofSpec site (f a)) = ofSpec site (x >>= f) := by
  cases x <;> rfl

theorem mapM_ofSpec {α β} (site : String) (f : α → Option β) : ∀ l : List α,
    l.mapM (fun x => ofSpec site (f x)) = ofSpec site (l.mapM f) := by
  intro l
  induction l with
  | nil => rfl
  | cons x xs ih =>
    rw [List.mapM_cons, List.mapM_cons, ih]
    cases f x with
    | none => rfl
    | some b =>
      cases List.mapM f xs with
      | none => rfl
      | some bs => rfl

/-- **`expand_a` is FIPS 204 Algorithm 32 (`ExpandA`) as written**, for every seed of 32 bytes -/
theorem expandA_is_algorithm_32 (m : Mode) (O : Oracles) (hO : OracleOk O) (p : ParamSet) (rho : List Nat) (hr : rho.length = 32) :
    expandA m O false p rho =
      ofSpec "hashing.rs:rej_ntt_poly:stream" (Spec.expandA (fun x => O.g x (1680 * O.fuelScale)) p.k p.l rho) := by
  unfold expandA Spec.expandA
  rw [← mapM_ofSpec]
  congr 1
  funext r
  rw [← mapM_ofSpec]
  congr 1
  funext s
  exact rejNttPoly_is_spec m O hO _ (by simp [hr])

/-! ### SampleInBall -/

theorem sibFind_eq (i : Nat) (s : List Nat) : sibFind i s = Spec.squeezeAtMost i s := by
  induction s with
  | nil => rfl
  | cons j rest ih => simp only [sibFind, Spec.squeezeAtMost, ih]

/-- bit `8 q + r` of `BytesToBits(s)` is bit `r` of byte `q` -/
theorem bytesToBits_getD : ∀ (s : List Nat) (q r : Nat), r < 8 → q < s.length →
    (Spec.bytesToBits s).getD (8 * q + r) 0 = s.getD q 0 / 2 ^ r % 2 := by
  intro s
  induction s with
  | nil => intro q r _ hq; simp at hq
  | cons x xs ih =>
    intro q r hr hq
    cases q with
    | zero =>
      simp only [Spec.bytesToBits, Nat.mul_zero, Nat.zero_add]
      have hl : r < (Spec.integerToBits x 8).length := by rw [integerToBits_len]; exact hr
      rw [List.getD_eq_getElem?_getD, List.getElem?_append_left hl]
      have : ∀ (y α r : Nat), r < α → (Spec.integerToBits y α)[r]?.getD 0 = y / 2 ^ r % 2 := by
        intro y α
        induction α generalizing y with
        | zero => intro r h; omega
        | succ n ihn =>
          intro r h
          cases r with
          | zero => simp [Spec.integerToBits]
          | succ r' =>
            simp only [Spec.integerToBits, List.getElem?_cons_succ]
            rw [ihn (y / 2) r' (by omega), Nat.div_div_eq_div_mul, Nat.pow_succ, Nat.mul_comm]
      rw [this x 8 r hr]; rfl
    | succ q' =>
      simp only [Spec.bytesToBits]
      rw [List.getD_eq_getElem?_getD, List.getElem?_append_right (by rw [integerToBits_len]; omega), integerToBits_len]
      have e : 8 * (q' + 1) + r - 8 = 8 * q' + r := by omega
      rw [e, ← List.getD_eq_getElem?_getD, ih q' r hr (by simpa using hq)]
      rfl


theorem bytesToBits_getD' (s : List Nat) (n : Nat) (h : n / 8 < s.length) :
    (Spec.bytesToBits s).getD n 0 = s.getD (n / 8) 0 / 2 ^ (n % 8) % 2 := by
  have := bytesToBits_getD s (n / 8) (n % 8) (Nat.mod_lt _ (by omega)) h
  rwa [Nat.div_add_mod] at this

theorem neg_one_pow_bit (b : Nat) (hb : b < 2) : ((-1 : Int) ^ b) = 1 - 2 * Int.ofNat b := by
  have : b = 0 ∨ b = 1 := by omega
  rcases this with rfl | rfl <;> decide

/-- the loop of Algorithm 29 in lock step: the crate's per-index step on (c, stream) is the standard's -/
theorem sibFold_is_spec (O : Oracles) (tau : Nat) (hbytes : List Nat) (hh : hbytes.length = 8) (ht : tau ≤ 64) :
    ∀ (is : List Nat) (c : Poly) (s : List Nat), c.length = 256 → (∀ i ∈ is, i < 256 ∧ 256 ≤ i + tau) →
      match is.foldlM (sibStep O false tau hbytes) (c, s) with
      | .ok st => Spec.sibLoop tau (Spec.bytesToBits hbytes) is c s = some st.1
      | .error e => e = .fuel "hashing.rs:sample_in_ball:stream" ∧ Spec.sibLoop tau (Spec.bytesToBits hbytes) is c s = none := by
  intro is
  induction is with
  | nil => intro c s _ _; simp [Spec.sibLoop, List.foldlM, pure, Except.pure]
  | cons i is ih =>
    intro c s hc hi
    obtain ⟨hi1, hi2⟩ := hi i List.mem_cons_self
    rw [List.foldlM_cons]
    unfold sibStep Spec.sibLoop
    simp only [Bool.false_eq_true, if_false]
    rw [sibFind_eq]
    cases hsq : Spec.squeezeAtMost i s with
    | none =>
      simp only [throw, throwThe, MonadExceptOf.throw, bind, Except.bind]
      first | exact ⟨rfl, rfl⟩ | exact ⟨rfl, trivial⟩ | simp
    | some r =>
      obtain ⟨j, rest⟩ := r
      have hj : j ≤ i := sibFind_le i s j rest (by rw [sibFind_eq]; exact hsq)
      have hjl : j < c.length := by omega
      simp only [pure_eq, ok_bind]
      rw [idx_ok _ c j hjl, ok_bind]
      have hidx : (i + tau - 256) / 8 < hbytes.length := by omega
      rw [idx_ok _ hbytes ((i + tau - 256) / 8) hidx, ok_bind]
      have hbit : (Spec.bytesToBits hbytes).getD (i + tau - 256) 0 = hbytes[(i + tau - 256) / 8] / 2 ^ ((i + tau - 256) % 8) % 2 := by
        rw [bytesToBits_getD' hbytes _ hidx, List.getD_eq_getElem?_getD, List.getElem?_eq_getElem hidx]
        rfl
      have hval : (1 - 2 * Int.ofNat (hbytes[(i + tau - 256) / 8] / 2 ^ ((i + tau - 256) % 8) % 2) : Int) =
          (-1 : Int) ^ ((Spec.bytesToBits hbytes).getD (i + tau - 256) 0) := by
        rw [hbit, neg_one_pow_bit _ (Nat.mod_lt _ (by omega))]
      have hgd : c.getD j 0 = c[j] := by rw [List.getD_eq_getElem?_getD, List.getElem?_eq_getElem hjl]; rfl
      rw [hval, ← hgd]
      exact ih _ rest (by simp [hc]) (fun x hx => hi x (List.mem_cons_of_mem _ hx))

theorem NoPanic.ok_elim {α} {P : α → Prop} {v : α} (h : NoPanic (Except.ok v : M α) P) : P v := by
  rcases h with ⟨w, hw, hp⟩ | ⟨s, hs⟩
  · cases hw; exact hp
  · cases hs

/-- **`sample_in_ball` is FIPS 204 Algorithm 29 (`SampleInBall`) as written**, on the same SHAKE256 stream, for the three values of tau -/
theorem sampleInBall_is_algorithm_29 (m : Mode) (O : Oracles) (hO : OracleOk O) (tau : Int) (rho : List Nat) (ht : 0 ≤ tau ∧ tau ≤ 64) :
    sampleInBall m O false tau rho =
      ofSpec "hashing.rs:sample_in_ball:stream" (Spec.sampleInBall tau.toNat (O.h rho (8 + 1360 * O.fuelScale))) := by
  unfold sampleInBall Spec.sampleInBall
  rw [if_neg (by omega)]
  simp only []
  rw [if_neg (by omega)]
  have hh : ((O.h rho (8 + 1360 * O.fuelScale)).take 8).length = 8 := by rw [List.length_take, hO.hlen]; omega
  have hrange : ∀ i ∈ (List.range tau.toNat).map (fun t => 256 - tau.toNat + t), i < 256 ∧ 256 ≤ i + tau.toNat := by
    intro i hi
    obtain ⟨t, ht', rfl⟩ := List.mem_map.mp hi
    have := List.mem_range.mp ht'
    omega
  have hspec := sibFold_is_spec O tau.toNat _ hh (by omega) ((List.range tau.toNat).map (fun t => 256 - tau.toNat + t)) zeroPoly
    ((O.h rho (8 + 1360 * O.fuelScale)).drop 8) (by unfold zeroPoly; exact List.length_replicate) hrange
  have hr : (List.range tau.toNat).map (fun t => 256 - tau.toNat + t) = List.range' (256 - tau.toNat) tau.toNat := by
    rw [List.range'_eq_map_range]
  have hnp := sibFold_np O false tau.toNat _ hh (by omega) tau.toNat (256 - tau.toNat) zeroPoly ((O.h rho (8 + 1360 * O.fuelScale)).drop 8)
    (by omega) (by omega) Tri_zeroPoly (fun k _ hk => by unfold zeroPoly; rw [List.getElem?_replicate, if_pos hk])
  rw [← hr] at hnp
  have hz : (List.replicate 256 (0 : Int)) = zeroPoly := rfl
  rw [hz]
  cases hf : ((List.range tau.toNat).map (fun t => 256 - tau.toNat + t)).foldlM (sibStep O false tau.toNat ((O.h rho (8 + 1360 * O.fuelScale)).take 8))
      (zeroPoly, (O.h rho (8 + 1360 * O.fuelScale)).drop 8) with
  | error e =>
    rw [hf] at hspec
    obtain ⟨he, hn⟩ := hspec
    rw [hn, he]; rfl
  | ok st =>
    rw [hf] at hspec hnp
    simp only at hspec
    rw [hspec]
    obtain ⟨c, s⟩ := st
    obtain ⟨hT, hn⟩ := NoPanic.ok_elim hnp
    rw [nz_zeroPoly, Nat.zero_add] at hn
    simp only [ok_bind]
    have d1 : ((c.filter (fun e => e ≠ 0)).length == tau.toNat) = true := beq_iff_eq.mpr hn
    have d2 : decide ((c.map (fun e => band .i32 e 1)).foldl (· + ·) 0 = Int.ofNat tau.toNat) = true := by
      rw [sum_band1 c hT.2 0, hn]; simp
    rw [dassert_dec m _ _ d1, ok_bind, dassert_dec m _ _ d2, ok_bind, pure_eq]
    rfl


/-! ### RejBoundedPoly / ExpandS -/

theorem band_u8_15 : ∀ z : Fin 256, band .u8 (z.val : Int) 15 = ((z.val % 16 : Nat) : Int) := by decide +kernel

theorem rejBoundedLoop_is_spec (m : Mode) (eta : Int) (he : eta = 2 ∨ eta = 4) : ∀ (fuel : Nat) (s : List Nat) (acc : List Int), (∀ b ∈ s, b < 256) →
    rejBoundedLoop m false eta fuel s acc = ofSpec "hashing.rs:rej_bounded_poly:stream" (Spec.rejBounded eta fuel s acc) := by
  intro fuel
  induction fuel with
  | zero => intro s acc _; rfl
  | succ n ih =>
    intro s acc hs
    unfold rejBoundedLoop Spec.rejBounded
    by_cases hl : acc.length ≥ 256
    · rw [if_pos hl, if_pos hl]; rfl
    · rw [if_neg hl, if_neg hl]
      cases s with
      | nil => rfl
      | cons z rest =>
        have hz : z < 256 := hs z List.mem_cons_self
        have hr : ∀ b ∈ rest, b < 256 := fun b hb => hs b (List.mem_cons_of_mem _ hb)
        simp only []
        have e15 : band .u8 (z : Int) 15 = ((z % 16 : Nat) : Int) := band_u8_15 ⟨z, hz⟩
        rw [e15, Props.C15.coeff_from_half_byte_spec m eta _ he (by omega), ok_bind]
        have e16 : ((z : Int) / 16) = ((z / 16 : Nat) : Int) := by omega
        rw [e16, Props.C15.coeff_from_half_byte_spec m eta _ he (by omega), ok_bind]
        have c1 : ((z % 16 : Nat) : Int) = (z : Int) % 16 := by omega
        have c2 : ((z / 16 : Nat) : Int) = (z : Int) / 16 := by omega
        rw [c1, c2]
        exact ih rest _ hr

theorem rejBoundedPoly_is_spec (m : Mode) (O : Oracles) (hO : OracleOk O) (eta : Int) (he : eta = 2 ∨ eta = 4) (rho : List Nat) (hr : rho.length = 66) :
    rejBoundedPoly m O false eta rho = ofSpec "hashing.rs:rej_bounded_poly:stream" (Spec.rejBoundedPoly eta (O.h rho (1088 * O.fuelScale))) := by
  unfold rejBoundedPoly Spec.rejBoundedPoly
  have d : (rho.length == 66) = true := by rw [hr]; rfl
  rw [dassert_dec m _ _ d, ok_bind, hO.hlen]
  exact rejBoundedLoop_is_spec m eta he _ _ _ (hO.hbyte rho _)

theorem mapM_some_mem {α β} (g : α → Option β) : ∀ (l : List α) (ys : List β), l.mapM g = some ys → ∀ y ∈ ys, ∃ x ∈ l, g x = some y := by
  intro l
  induction l with
  | nil => intro ys h y hy; simp [List.mapM_nil] at h; subst h; simp at hy
  | cons x xs ih =>
    intro ys h y hy
    rw [List.mapM_cons] at h
    cases hg : g x with
    | none => rw [hg] at h; cases h
    | some b =>
      rw [hg] at h
      cases hm : List.mapM g xs with
      | none => rw [hm] at h; cases h
      | some bs =>
        rw [hm] at h
        have : ys = b :: bs := by cases h; rfl
        subst this
        rcases List.mem_cons.mp hy with rfl | hy'
        · exact ⟨x, List.mem_cons_self, hg⟩
        · obtain ⟨x', hx', hgx'⟩ := ih bs hm y hy'
          exact ⟨x', List.mem_cons_of_mem _ hx', hgx'⟩

/-- **`expand_s` is FIPS 204 Algorithm 33 (`ExpandS`) as written**, for every seed of 64 bytes, eta in {2, 4} -/
theorem expandS_is_algorithm_33 (m : Mode) (O : Oracles) (hO : OracleOk O) (p : ParamSet) (he : p.eta = 2 ∨ p.eta = 4) (rho : List Nat) (hr : rho.length = 64) :
    expandS m O false p rho =
      ofSpec "hashing.rs:rej_bounded_poly:stream" (Spec.expandS (fun x => O.h x (1088 * O.fuelScale)) p.eta p.k p.l rho) := by
  unfold expandS Spec.expandS
  have f1 : (fun r => rejBoundedPoly m O false p.eta (rho ++ [r % 256, 0])) =
      (fun r => ofSpec "hashing.rs:rej_bounded_poly:stream" (Spec.rejBoundedPoly p.eta (O.h (rho ++ [r % 256, 0]) (1088 * O.fuelScale)))) := by
    funext r; exact rejBoundedPoly_is_spec m O hO p.eta he _ (by simp [hr])
  have f2 : (fun r => rejBoundedPoly m O false p.eta (rho ++ [(r + p.l) % 256, 0])) =
      (fun r => ofSpec "hashing.rs:rej_bounded_poly:stream" (Spec.rejBoundedPoly p.eta (O.h (rho ++ [(r + p.l) % 256, 0]) (1088 * O.fuelScale)))) := by
    funext r; exact rejBoundedPoly_is_spec m O hO p.eta he _ (by simp [hr])
  rw [f1, f2, mapM_ofSpec, mapM_ofSpec]
  have range_of : ∀ (q : List Int) (rr : List Nat), rr.length = 66 → Spec.rejBoundedPoly p.eta (O.h rr (1088 * O.fuelScale)) = some q →
      ∀ x ∈ q, -p.eta ≤ x ∧ x ≤ p.eta := by
    intro q rr hrr hq
    have hnp := rejBoundedPoly_np m O hO p.eta he rr hrr
    rw [rejBoundedPoly_is_spec m O hO p.eta he rr hrr, hq] at hnp
    exact (NoPanic.ok_elim hnp).2
  cases h1 : (List.range p.l).mapM (fun r => Spec.rejBoundedPoly p.eta (O.h (rho ++ [r % 256, 0]) (1088 * O.fuelScale))) with
  | none => rfl
  | some s1 =>
    simp only [ofSpec, ok_bind]
    cases h2 : (List.range p.k).mapM (fun r => Spec.rejBoundedPoly p.eta (O.h (rho ++ [(r + p.l) % 256, 0]) (1088 * O.fuelScale))) with
    | none => rfl
    | some s2 =>
      simp only [ok_bind]
      have eta0 : -2147483647 ≤ p.eta ∧ p.eta ≤ 2147483648 := by rcases he with h | h <;> omega
      have r1 : ∀ q ∈ s1, ∀ x ∈ q, -p.eta ≤ x ∧ x ≤ p.eta := by
        intro q hq
        obtain ⟨r, _, hg⟩ := mapM_some_mem _ _ _ h1 q hq
        exact range_of q _ (by simp [hr]) hg
      have r2 : ∀ q ∈ s2, ∀ x ∈ q, -p.eta ≤ x ∧ x ≤ p.eta := by
        intro q hq
        obtain ⟨r, _, hg⟩ := mapM_some_mem _ _ _ h2 q hq
        exact range_of q _ (by simp [hr]) hg
      obtain ⟨bs1, hbs1, _, hbt1⟩ := mapM_ok_len (fun r => isInRange m r p.eta p.eta) (fun r => r ∈ s1) (fun b => b = true)
        (fun r hr' => ⟨true, isInRange_true m r p.eta p.eta eta0 (r1 r hr'), rfl⟩) s1 (fun a ha => ha)
      have hall1 : bs1.all id = true := by rw [List.all_eq_true]; intro b hb'; exact hbt1 b hb'
      obtain ⟨bs2, hbs2, _, hbt2⟩ := mapM_ok_len (fun r => isInRange m r p.eta p.eta) (fun r => r ∈ s2) (fun b => b = true)
        (fun r hr' => ⟨true, isInRange_true m r p.eta p.eta eta0 (r2 r hr'), rfl⟩) s2 (fun a ha => ha)
      have hall2 : bs2.all id = true := by rw [List.all_eq_true]; intro b hb'; exact hbt2 b hb'
      simp only [hbs1, hbs2, ok_bind, pure_eq, hall1, hall2, dassertM_true]


/-! ### ExpandMask -/

/-- the one property of an extendable-output function the equality below uses: asking for fewer bytes gives a prefix -/
def OraclePrefix (O : Oracles) : Prop := ∀ x n k, k ≤ n → (O.h x n).take k = O.h x k

/-- **`expand_mask` is FIPS 204 Algorithm 34 (`ExpandMask`) as written** while the 16-bit counter has room
    (the crate squeezes 640 bytes and unpacks the first `32 c`; the standard asks for `32 c` bytes) -/
theorem expandMask_is_algorithm_34 (m : Mode) (O : Oracles) (hO : OracleOk O) (hP : OraclePrefix O) (p : ParamSet) (blz : Nat) (cfg : SigCfg p blz)
    (rho : List Nat) (mu : Nat) (hmu : mu + p.l ≤ 65536) (hl : p.l ≤ 65535) :
    expandMask m O p rho (mu : Int) = .ok (Spec.expandMask O.h blz p.gamma1 p.l rho mu) := by
  obtain ⟨ys, hys, _, _⟩ := expandMask_ok m O hO p blz cfg rho mu (by omega) hl
  rw [hys]
  congr 1
  unfold Spec.expandMask
  obtain ⟨bl0, h0, hbz, h1, hpow, hz1, hz2, hg1, hg2, hz3⟩ := gamma1_facts m p blz cfg
  unfold expandMask at hys
  rw [arith_i32 _ _ _ (by omega) (by omega), ok_bind, h0, ok_bind] at hys
  simp only [] at hys
  have hc : 1 + bl0 = blz := by omega
  rw [hc, dassert_dec m _ _ (by rcases hz3 with h | h <;> simp [h]), ok_bind, if_neg (by omega)] at hys
  obtain ⟨ys', hm, hrest⟩ := bind_ok_inv hys
  rw [mapM_eq_map _ (fun r => Spec.bitUnpack blz p.gamma1 (O.h (rho ++ [(mu + r) % 256, (mu + r) / 256 % 256]) (32 * blz)))] at hm
  · have e := ok_inj hm
    subst e
    obtain ⟨_, _, hfin⟩ := bind_ok_inv hrest
    rw [pure_eq] at hfin
    exact (ok_inj hfin).symm
  · intro r hr
    have hr' : r < p.l := List.mem_range.mp hr
    have hn : arith .u16 m "hashing.rs:expand_mask:mu+r" ((mu : Int) + Int.ofNat r) = .ok ((mu : Int) + Int.ofNat r) :=
      arith_ok _ _ _ _ (by simp only [IT.lo]; have : (0:Int) ≤ Int.ofNat r := Int.natCast_nonneg _; omega)
        (by simp only [IT.hi]; have : Int.ofNat r < p.l := Int.ofNat_lt.mpr hr'; omega)
    rw [hn, ok_bind]
    have ecast : (mu : Int) + Int.ofNat r = ((mu + r : Nat) : Int) := by simp
    have hb : mu + r < 65536 := by omega
    have key : ∀ n : Nat, n < 65536 → (((n : Int) % 256).toNat = n % 256 ∧ ((n : Int) / 256).toNat = n / 256 % 256) := by
      intro n hn'
      have : n / 256 < 256 := by omega
      constructor <;> omega
    have e1 : (((mu : Int) + Int.ofNat r) % 256).toNat = (mu + r) % 256 := by rw [ecast]; exact (key _ hb).1
    have e2 : (((mu : Int) + Int.ofNat r) / 256).toNat = (mu + r) / 256 % 256 := by rw [ecast]; exact (key _ hb).2
    rw [e1, e2]
    have hvl := hO.hlen (rho ++ [(mu + r) % 256, (mu + r) / 256 % 256]) 640
    have hsl := slice_ok "hashing.rs:expand_mask:v[0..32*c]"
      (O.h (rho ++ [(mu + r) % 256, (mu + r) / 256 % 256]) 640) 0 (32 * blz) (by constructor <;> omega)
    rw [hsl, ok_bind]
    simp only [List.drop_zero, Nat.sub_zero]
    rw [hP _ 640 (32 * blz) (by omega)]
    have hg2' : 2 ≤ p.gamma1 := by rcases cfg.g1 with ⟨h, _⟩ | ⟨h, _⟩ <;> omega
    have hw := bitUnpack_exact_is_spec m (O.h (rho ++ [(mu + r) % 256, (mu + r) / 256 % 256]) (32 * blz)) (p.gamma1 - 1) p.gamma1 blz
      (by omega) (by omega) h1 (by omega) hpow (hO.hbyte _ _) (hO.hlen _ _)
    rw [hw, ok_bind]
    rfl

end Fips204.Impl
