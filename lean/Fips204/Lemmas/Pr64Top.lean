import Fips204.Lemmas.Kernels
/-!
  `partial_reduce64` on the caller's shape `x << 32`, top slices 67_000_000 < |x| < 67_058_539 of its documented domain.
  The product `a * M` comes within 119 units of overflowing i64 there, so the bound cannot be obtained by linear
  arithmetic from |x| alone; instead the one fact needed about each x (the twice-reduced value a2 is at most
  floor((2^63 - 1) / M)) is *evaluated by the kernel* for every x of both slices (58 538 values each, in chunks),
  and the general lemma `to_mont_coeff_of_a2` turns it into the kernel's exact result.  No axiom beyond the usual three.
-/
namespace Fips204.K
open Fips204 Fips204.Gen

/-- the twice-reduced value inside `partial_reduce64 (x << 32)` -/
def a2of (x : Int) : Int := x * 4193792 - x * 4193792 / 8388608 * 8380417

/-- `a2 * M` fits i64 (M = 33587228 = floor(2^48 / q)) -/
def topOk (x : Int) : Bool := decide (-274609504447 ≤ a2of x) && decide (a2of x ≤ 274609504447)

def allFrom : Nat → Int → Bool
  | 0, _ => true
  | n + 1, x => topOk x && allFrom n (x + 1)

theorem allFrom_spec : ∀ (n : Nat) (x0 : Int), allFrom n x0 = true → ∀ x, x0 ≤ x → x < x0 + n → topOk x = true := by
  intro n
  induction n with
  | zero => intro x0 _ x h1 h2; omega
  | succ n ih =>
    intro x0 h x h1 h2
    simp only [allFrom, Bool.and_eq_true] at h
    by_cases hx : x = x0
    · subst hx; exact h.1
    · exact ih (x0 + 1) h.2 x (by omega) (by omega)

theorem top_pos_0 : allFrom 2000 (67000001) = true := by decide +kernel
theorem top_pos_1 : allFrom 2000 (67002001) = true := by decide +kernel
theorem top_pos_2 : allFrom 2000 (67004001) = true := by decide +kernel
theorem top_pos_3 : allFrom 2000 (67006001) = true := by decide +kernel
theorem top_pos_4 : allFrom 2000 (67008001) = true := by decide +kernel
theorem top_pos_5 : allFrom 2000 (67010001) = true := by decide +kernel
theorem top_pos_6 : allFrom 2000 (67012001) = true := by decide +kernel
theorem top_pos_7 : allFrom 2000 (67014001) = true := by decide +kernel
theorem top_pos_8 : allFrom 2000 (67016001) = true := by decide +kernel
theorem top_pos_9 : allFrom 2000 (67018001) = true := by decide +kernel
theorem top_pos_10 : allFrom 2000 (67020001) = true := by decide +kernel
theorem top_pos_11 : allFrom 2000 (67022001) = true := by decide +kernel
theorem top_pos_12 : allFrom 2000 (67024001) = true := by decide +kernel
theorem top_pos_13 : allFrom 2000 (67026001) = true := by decide +kernel
theorem top_pos_14 : allFrom 2000 (67028001) = true := by decide +kernel
theorem top_pos_15 : allFrom 2000 (67030001) = true := by decide +kernel
theorem top_pos_16 : allFrom 2000 (67032001) = true := by decide +kernel
theorem top_pos_17 : allFrom 2000 (67034001) = true := by decide +kernel
theorem top_pos_18 : allFrom 2000 (67036001) = true := by decide +kernel
theorem top_pos_19 : allFrom 2000 (67038001) = true := by decide +kernel
theorem top_pos_20 : allFrom 2000 (67040001) = true := by decide +kernel
theorem top_pos_21 : allFrom 2000 (67042001) = true := by decide +kernel
theorem top_pos_22 : allFrom 2000 (67044001) = true := by decide +kernel
theorem top_pos_23 : allFrom 2000 (67046001) = true := by decide +kernel
theorem top_pos_24 : allFrom 2000 (67048001) = true := by decide +kernel
theorem top_pos_25 : allFrom 2000 (67050001) = true := by decide +kernel
theorem top_pos_26 : allFrom 2000 (67052001) = true := by decide +kernel
theorem top_pos_27 : allFrom 2000 (67054001) = true := by decide +kernel
theorem top_pos_28 : allFrom 2000 (67056001) = true := by decide +kernel
theorem top_pos_29 : allFrom 538 (67058001) = true := by decide +kernel
theorem top_neg_0 : allFrom 2000 (-67058538) = true := by decide +kernel
theorem top_neg_1 : allFrom 2000 (-67056538) = true := by decide +kernel
theorem top_neg_2 : allFrom 2000 (-67054538) = true := by decide +kernel
theorem top_neg_3 : allFrom 2000 (-67052538) = true := by decide +kernel
theorem top_neg_4 : allFrom 2000 (-67050538) = true := by decide +kernel
theorem top_neg_5 : allFrom 2000 (-67048538) = true := by decide +kernel
theorem top_neg_6 : allFrom 2000 (-67046538) = true := by decide +kernel
theorem top_neg_7 : allFrom 2000 (-67044538) = true := by decide +kernel
theorem top_neg_8 : allFrom 2000 (-67042538) = true := by decide +kernel
theorem top_neg_9 : allFrom 2000 (-67040538) = true := by decide +kernel
theorem top_neg_10 : allFrom 2000 (-67038538) = true := by decide +kernel
theorem top_neg_11 : allFrom 2000 (-67036538) = true := by decide +kernel
theorem top_neg_12 : allFrom 2000 (-67034538) = true := by decide +kernel
theorem top_neg_13 : allFrom 2000 (-67032538) = true := by decide +kernel
theorem top_neg_14 : allFrom 2000 (-67030538) = true := by decide +kernel
theorem top_neg_15 : allFrom 2000 (-67028538) = true := by decide +kernel
theorem top_neg_16 : allFrom 2000 (-67026538) = true := by decide +kernel
theorem top_neg_17 : allFrom 2000 (-67024538) = true := by decide +kernel
theorem top_neg_18 : allFrom 2000 (-67022538) = true := by decide +kernel
theorem top_neg_19 : allFrom 2000 (-67020538) = true := by decide +kernel
theorem top_neg_20 : allFrom 2000 (-67018538) = true := by decide +kernel
theorem top_neg_21 : allFrom 2000 (-67016538) = true := by decide +kernel
theorem top_neg_22 : allFrom 2000 (-67014538) = true := by decide +kernel
theorem top_neg_23 : allFrom 2000 (-67012538) = true := by decide +kernel
theorem top_neg_24 : allFrom 2000 (-67010538) = true := by decide +kernel
theorem top_neg_25 : allFrom 2000 (-67008538) = true := by decide +kernel
theorem top_neg_26 : allFrom 2000 (-67006538) = true := by decide +kernel
theorem top_neg_27 : allFrom 2000 (-67004538) = true := by decide +kernel
theorem top_neg_28 : allFrom 2000 (-67002538) = true := by decide +kernel
theorem top_neg_29 : allFrom 538 (-67000538) = true := by decide +kernel

/-- every x of the two top slices satisfies `topOk` -/
theorem top_slices_ok (x : Int) (h : (67000000 < x ∧ x < 67058539) ∨ (-67058539 < x ∧ x < -67000000)) : topOk x = true := by
  have hc : (67000001 ≤ x ∧ x < 67000001 + 2000) ∨ (67002001 ≤ x ∧ x < 67002001 + 2000) ∨ (67004001 ≤ x ∧ x < 67004001 + 2000) ∨ (67006001 ≤ x ∧ x < 67006001 + 2000) ∨ (67008001 ≤ x ∧ x < 67008001 + 2000) ∨ (67010001 ≤ x ∧ x < 67010001 + 2000) ∨ (67012001 ≤ x ∧ x < 67012001 + 2000) ∨ (67014001 ≤ x ∧ x < 67014001 + 2000) ∨ (67016001 ≤ x ∧ x < 67016001 + 2000) ∨ (67018001 ≤ x ∧ x < 67018001 + 2000) ∨ (67020001 ≤ x ∧ x < 67020001 + 2000) ∨ (67022001 ≤ x ∧ x < 67022001 + 2000) ∨ (67024001 ≤ x ∧ x < 67024001 + 2000) ∨ (67026001 ≤ x ∧ x < 67026001 + 2000) ∨ (67028001 ≤ x ∧ x < 67028001 + 2000) ∨ (67030001 ≤ x ∧ x < 67030001 + 2000) ∨ (67032001 ≤ x ∧ x < 67032001 + 2000) ∨ (67034001 ≤ x ∧ x < 67034001 + 2000) ∨ (67036001 ≤ x ∧ x < 67036001 + 2000) ∨ (67038001 ≤ x ∧ x < 67038001 + 2000) ∨ (67040001 ≤ x ∧ x < 67040001 + 2000) ∨ (67042001 ≤ x ∧ x < 67042001 + 2000) ∨ (67044001 ≤ x ∧ x < 67044001 + 2000) ∨ (67046001 ≤ x ∧ x < 67046001 + 2000) ∨ (67048001 ≤ x ∧ x < 67048001 + 2000) ∨ (67050001 ≤ x ∧ x < 67050001 + 2000) ∨ (67052001 ≤ x ∧ x < 67052001 + 2000) ∨ (67054001 ≤ x ∧ x < 67054001 + 2000) ∨ (67056001 ≤ x ∧ x < 67056001 + 2000) ∨ (67058001 ≤ x ∧ x < 67058001 + 538) ∨ (-67058538 ≤ x ∧ x < -67058538 + 2000) ∨ (-67056538 ≤ x ∧ x < -67056538 + 2000) ∨ (-67054538 ≤ x ∧ x < -67054538 + 2000) ∨ (-67052538 ≤ x ∧ x < -67052538 + 2000) ∨ (-67050538 ≤ x ∧ x < -67050538 + 2000) ∨ (-67048538 ≤ x ∧ x < -67048538 + 2000) ∨ (-67046538 ≤ x ∧ x < -67046538 + 2000) ∨ (-67044538 ≤ x ∧ x < -67044538 + 2000) ∨ (-67042538 ≤ x ∧ x < -67042538 + 2000) ∨ (-67040538 ≤ x ∧ x < -67040538 + 2000) ∨ (-67038538 ≤ x ∧ x < -67038538 + 2000) ∨ (-67036538 ≤ x ∧ x < -67036538 + 2000) ∨ (-67034538 ≤ x ∧ x < -67034538 + 2000) ∨ (-67032538 ≤ x ∧ x < -67032538 + 2000) ∨ (-67030538 ≤ x ∧ x < -67030538 + 2000) ∨ (-67028538 ≤ x ∧ x < -67028538 + 2000) ∨ (-67026538 ≤ x ∧ x < -67026538 + 2000) ∨ (-67024538 ≤ x ∧ x < -67024538 + 2000) ∨ (-67022538 ≤ x ∧ x < -67022538 + 2000) ∨ (-67020538 ≤ x ∧ x < -67020538 + 2000) ∨ (-67018538 ≤ x ∧ x < -67018538 + 2000) ∨ (-67016538 ≤ x ∧ x < -67016538 + 2000) ∨ (-67014538 ≤ x ∧ x < -67014538 + 2000) ∨ (-67012538 ≤ x ∧ x < -67012538 + 2000) ∨ (-67010538 ≤ x ∧ x < -67010538 + 2000) ∨ (-67008538 ≤ x ∧ x < -67008538 + 2000) ∨ (-67006538 ≤ x ∧ x < -67006538 + 2000) ∨ (-67004538 ≤ x ∧ x < -67004538 + 2000) ∨ (-67002538 ≤ x ∧ x < -67002538 + 2000) ∨ (-67000538 ≤ x ∧ x < -67000538 + 538) := by omega
  rcases hc with h | h | h | h | h | h | h | h | h | h | h | h | h | h | h | h | h | h | h | h | h | h | h | h | h | h | h | h | h | h | h | h | h | h | h | h | h | h | h | h | h | h | h | h | h | h | h | h | h | h | h | h | h | h | h | h | h | h | h | h
  · exact allFrom_spec 2000 (67000001) top_pos_0 x h.1 (by omega)
  · exact allFrom_spec 2000 (67002001) top_pos_1 x h.1 (by omega)
  · exact allFrom_spec 2000 (67004001) top_pos_2 x h.1 (by omega)
  · exact allFrom_spec 2000 (67006001) top_pos_3 x h.1 (by omega)
  · exact allFrom_spec 2000 (67008001) top_pos_4 x h.1 (by omega)
  · exact allFrom_spec 2000 (67010001) top_pos_5 x h.1 (by omega)
  · exact allFrom_spec 2000 (67012001) top_pos_6 x h.1 (by omega)
  · exact allFrom_spec 2000 (67014001) top_pos_7 x h.1 (by omega)
  · exact allFrom_spec 2000 (67016001) top_pos_8 x h.1 (by omega)
  · exact allFrom_spec 2000 (67018001) top_pos_9 x h.1 (by omega)
  · exact allFrom_spec 2000 (67020001) top_pos_10 x h.1 (by omega)
  · exact allFrom_spec 2000 (67022001) top_pos_11 x h.1 (by omega)
  · exact allFrom_spec 2000 (67024001) top_pos_12 x h.1 (by omega)
  · exact allFrom_spec 2000 (67026001) top_pos_13 x h.1 (by omega)
  · exact allFrom_spec 2000 (67028001) top_pos_14 x h.1 (by omega)
  · exact allFrom_spec 2000 (67030001) top_pos_15 x h.1 (by omega)
  · exact allFrom_spec 2000 (67032001) top_pos_16 x h.1 (by omega)
  · exact allFrom_spec 2000 (67034001) top_pos_17 x h.1 (by omega)
  · exact allFrom_spec 2000 (67036001) top_pos_18 x h.1 (by omega)
  · exact allFrom_spec 2000 (67038001) top_pos_19 x h.1 (by omega)
  · exact allFrom_spec 2000 (67040001) top_pos_20 x h.1 (by omega)
  · exact allFrom_spec 2000 (67042001) top_pos_21 x h.1 (by omega)
  · exact allFrom_spec 2000 (67044001) top_pos_22 x h.1 (by omega)
  · exact allFrom_spec 2000 (67046001) top_pos_23 x h.1 (by omega)
  · exact allFrom_spec 2000 (67048001) top_pos_24 x h.1 (by omega)
  · exact allFrom_spec 2000 (67050001) top_pos_25 x h.1 (by omega)
  · exact allFrom_spec 2000 (67052001) top_pos_26 x h.1 (by omega)
  · exact allFrom_spec 2000 (67054001) top_pos_27 x h.1 (by omega)
  · exact allFrom_spec 2000 (67056001) top_pos_28 x h.1 (by omega)
  · exact allFrom_spec 538 (67058001) top_pos_29 x h.1 (by omega)
  · exact allFrom_spec 2000 (-67058538) top_neg_0 x h.1 (by omega)
  · exact allFrom_spec 2000 (-67056538) top_neg_1 x h.1 (by omega)
  · exact allFrom_spec 2000 (-67054538) top_neg_2 x h.1 (by omega)
  · exact allFrom_spec 2000 (-67052538) top_neg_3 x h.1 (by omega)
  · exact allFrom_spec 2000 (-67050538) top_neg_4 x h.1 (by omega)
  · exact allFrom_spec 2000 (-67048538) top_neg_5 x h.1 (by omega)
  · exact allFrom_spec 2000 (-67046538) top_neg_6 x h.1 (by omega)
  · exact allFrom_spec 2000 (-67044538) top_neg_7 x h.1 (by omega)
  · exact allFrom_spec 2000 (-67042538) top_neg_8 x h.1 (by omega)
  · exact allFrom_spec 2000 (-67040538) top_neg_9 x h.1 (by omega)
  · exact allFrom_spec 2000 (-67038538) top_neg_10 x h.1 (by omega)
  · exact allFrom_spec 2000 (-67036538) top_neg_11 x h.1 (by omega)
  · exact allFrom_spec 2000 (-67034538) top_neg_12 x h.1 (by omega)
  · exact allFrom_spec 2000 (-67032538) top_neg_13 x h.1 (by omega)
  · exact allFrom_spec 2000 (-67030538) top_neg_14 x h.1 (by omega)
  · exact allFrom_spec 2000 (-67028538) top_neg_15 x h.1 (by omega)
  · exact allFrom_spec 2000 (-67026538) top_neg_16 x h.1 (by omega)
  · exact allFrom_spec 2000 (-67024538) top_neg_17 x h.1 (by omega)
  · exact allFrom_spec 2000 (-67022538) top_neg_18 x h.1 (by omega)
  · exact allFrom_spec 2000 (-67020538) top_neg_19 x h.1 (by omega)
  · exact allFrom_spec 2000 (-67018538) top_neg_20 x h.1 (by omega)
  · exact allFrom_spec 2000 (-67016538) top_neg_21 x h.1 (by omega)
  · exact allFrom_spec 2000 (-67014538) top_neg_22 x h.1 (by omega)
  · exact allFrom_spec 2000 (-67012538) top_neg_23 x h.1 (by omega)
  · exact allFrom_spec 2000 (-67010538) top_neg_24 x h.1 (by omega)
  · exact allFrom_spec 2000 (-67008538) top_neg_25 x h.1 (by omega)
  · exact allFrom_spec 2000 (-67006538) top_neg_26 x h.1 (by omega)
  · exact allFrom_spec 2000 (-67004538) top_neg_27 x h.1 (by omega)
  · exact allFrom_spec 2000 (-67002538) top_neg_28 x h.1 (by omega)
  · exact allFrom_spec 538 (-67000538) top_neg_29 x h.1 (by omega)

/-- the kernel's exact result, given only that `a2 * M` fits i64 -/
theorem to_mont_coeff_of_a2 (m : Mode) (x : Int) (h1 : -67058539 < x) (h2 : x < 67058539)
    (hb : -274609504447 ≤ a2of x ∧ a2of x ≤ 274609504447) :
    to_mont_coeff m x = .ok (pr64s x) ∧ (pr64s x - x * 4294967296) % 8380417 = 0 ∧ -16760834 < pr64s x ∧ pr64s x < 16760834 := by
  unfold a2of at hb
  have hw := wrap64_id (x * 4294967296) (by omega) (by omega)
  have e0 : x * 4294967296 / 8388608 = x * 512 := by omega
  have e1 : x * 4294967296 - x * 512 * 8380417 = x * 4193792 := by omega
  obtain ⟨d, hd⟩ : ∃ d, x * 4193792 / 8388608 = d := ⟨_, rfl⟩
  rw [hd] at hb
  obtain ⟨a2, ha2⟩ : ∃ a2, x * 4193792 - d * 8380417 = a2 := ⟨_, rfl⟩
  rw [ha2] at hb
  have hc : (a2 - x * 4294967296) % 8380417 = 0 := by omega
  obtain ⟨q3, hq⟩ : ∃ q3, a2 * 33587228 / 281474976710656 = q3 := ⟨_, rfl⟩
  have hq1 : 281474976710656 * q3 ≤ a2 * 33587228 := by omega
  have hq2 : a2 * 33587228 < 281474976710656 * q3 + 281474976710656 := by omega
  have hw2 := wrap32_id (a2 - q3 * 8380417) (by omega) (by omega)
  refine ⟨?_, ?_⟩
  · unfold to_mont_coeff partial_reduce64 pr64s
    simp only [hw]
    ksimp [e0, e1, hd, ha2, hq, hw2]
  · unfold pr64s
    simp only [e0, e1, hd, ha2, hq]
    omega

/-- **`partial_reduce64` on its whole documented domain** (caller's shape `x << 32`, |x| < 67 058 539), both build modes -/
theorem to_mont_coeff_full (m : Mode) (x : Int) (h1 : -67058539 < x) (h2 : x < 67058539) :
    to_mont_coeff m x = .ok (pr64s x) ∧ (pr64s x - x * 4294967296) % 8380417 = 0 ∧ -16760834 < pr64s x ∧ pr64s x < 16760834 := by
  by_cases hmid : -67000000 ≤ x ∧ x ≤ 67000000
  · exact ⟨to_mont_coeff_eq m x hmid.1 hmid.2, pr64s_spec x hmid.1 hmid.2⟩
  · have ht := top_slices_ok x (by omega)
    simp only [topOk, Bool.and_eq_true, decide_eq_true_eq] at ht
    exact to_mont_coeff_of_a2 m x h1 h2 ht

end Fips204.K
