/-
  Fips204.Basic — the vocabulary in which the crate is modelled (DESIGN 2.2, 3.1).

  Values are unbounded `Int`; a value "of Rust type t" carries the side condition
  `t.lo ≤ x ≤ t.hi`.  The same source is compiled two ways (`Mode`): with
  debug-assertions + overflow-checks (`checked`: a failed assertion or an overflow is a
  `Fault`) and without (`release`: assertions are not evaluated, arithmetic wraps).
  No Mathlib import here: this file is linked into the `model` executable.
-/
namespace Fips204

inductive Mode | checked | release
  deriving DecidableEq, Repr, Inhabited

inductive Fault
  | overflow (site : String)   -- arithmetic overflow panic (overflow-checks)
  | dassert  (site : String)   -- failed debug_assert!/debug_assert_eq!
  | oob      (site : String)   -- slice / array index out of bounds, copy_from_slice length
  | expect   (site : String)   -- .expect()/.unwrap() on None/Err
  | fuel     (site : String)   -- model-only: oracle stream exhausted (never a crate behaviour)
  deriving DecidableEq, Repr, Inhabited

def Fault.site : Fault → String
  | .overflow s | .dassert s | .oob s | .expect s | .fuel s => s

def Fault.kind : Fault → String
  | .overflow _ => "overflow" | .dassert _ => "dassert" | .oob _ => "oob"
  | .expect _ => "expect" | .fuel _ => "fuel"

abbrev M := Except Fault

/-- Rust integer types that occur in the crate. -/
inductive IT | i32 | i64 | u8 | u16 | u32 | usize
  deriving DecidableEq, Repr

def IT.lo : IT → Int
  | .i32 => -2147483648 | .i64 => -9223372036854775808
  | .u8 => 0 | .u16 => 0 | .u32 => 0 | .usize => 0

def IT.hi : IT → Int
  | .i32 => 2147483647 | .i64 => 9223372036854775807
  | .u8 => 255 | .u16 => 65535 | .u32 => 4294967295 | .usize => 18446744073709551615

def IT.modulus : IT → Int
  | .i32 => 4294967296 | .i64 => 18446744073709551616
  | .u8 => 256 | .u16 => 65536 | .u32 => 4294967296 | .usize => 18446744073709551616

def IT.bits : IT → Nat
  | .i32 => 32 | .i64 => 64 | .u8 => 8 | .u16 => 16 | .u32 => 32 | .usize => 64

/-- two's-complement wrap of an unbounded integer into type `t` -/
def IT.wrap (t : IT) (x : Int) : Int := (x - t.lo) % t.modulus + t.lo

def IT.fits (t : IT) (x : Int) : Bool := decide (t.lo ≤ x) && decide (x ≤ t.hi)

/-- result of an arithmetic operation whose mathematical value is `r` -/
def arith (t : IT) (m : Mode) (site : String) (r : Int) : M Int :=
  if t.lo ≤ r ∧ r ≤ t.hi then pure r
  else match m with
    | .checked => throw (.overflow site)
    | .release => pure (t.wrap r)

/-- `debug_assert!`: not evaluated in release; the condition itself may fault in checked mode -/
def dassertM (m : Mode) (site : String) (c : M Bool) : M Unit :=
  match m with
  | .release => pure ()
  | .checked => do
      let b ← c
      if b then pure () else throw (.dassert site)

def dassert (m : Mode) (site : String) (c : Bool) : M Unit :=
  match m with
  | .release => pure ()
  | .checked => if c then pure () else throw (.dassert site)

/-- unsigned representative of `x` in `t.bits` bits -/
def IT.toU (t : IT) (x : Int) : Nat := (x % t.modulus).toNat

/-- back from the unsigned representative -/
def IT.ofU (t : IT) (n : Nat) : Int := t.wrap (n : Int)

@[irreducible] def band (t : IT) (a b : Int) : Int := t.ofU (t.toU a &&& t.toU b)
@[irreducible] def bor  (t : IT) (a b : Int) : Int := t.ofU (t.toU a ||| t.toU b)
@[irreducible] def bxor (t : IT) (a b : Int) : Int := t.ofU (t.toU a ^^^ t.toU b)

/-- `a << n`: Rust checks only the shift amount; the value wraps silently in both modes -/
def shl (t : IT) (m : Mode) (site : String) (a : Int) (n : Int) : M Int :=
  if 0 ≤ n ∧ n < t.bits then pure (t.wrap (a * 2 ^ n.toNat))
  else match m with
    | .checked => throw (.overflow site)
    | .release => pure (t.wrap (a * 2 ^ (n % t.bits).toNat))

/-- `a >> n`: arithmetic on signed, logical on unsigned = floor division either way -/
def shr (t : IT) (m : Mode) (site : String) (a : Int) (n : Int) : M Int :=
  if 0 ≤ n ∧ n < t.bits then pure (a / 2 ^ n.toNat)
  else match m with
    | .checked => throw (.overflow site)
    | .release => pure (a / 2 ^ (n % t.bits).toNat)

/-- `x.ilog2()` panics on non-positive input in every build -/
def ilog2 (site : String) (a : Int) : M Int :=
  if 0 < a then pure (Int.ofNat (Nat.log2 a.toNat)) else throw (.expect site)

/-- `a.rem_euclid(b)`; b = 0 panics in every build -/
def remEuclid (site : String) (a b : Int) : M Int :=
  if b = 0 then throw (.expect site) else pure (a % b)

def absI (x : Int) : Int := if x < 0 then -x else x

/-- FIPS 204 `mod±` -/
def modpm (alpha : Int) (x : Int) : Int :=
  let r := x % alpha
  if r > alpha / 2 then r - alpha else r

/-- checked list indexing -/
def idx {α} (site : String) (l : List α) (i : Nat) : M α :=
  match l[i]? with
  | some x => pure x
  | none => throw (.oob site)

def idxI {α} (site : String) (l : List α) (i : Int) : M α :=
  if 0 ≤ i then idx site l i.toNat else throw (.oob site)

/-- checked slice `l[a..b]` -/
def slice {α} (site : String) (l : List α) (a b : Nat) : M (List α) :=
  if a ≤ b ∧ b ≤ l.length then pure ((l.drop a).take (b - a)) else throw (.oob site)

end Fips204
