/-
  Impl.Legacy — frozen copies of the *pinned-tree* definitions that findings F1 and F3 refute
  (DESIGN 2.6, 8).  They are not used by the live model; they keep the findings machine-checked after
  the code has been repaired, and let a regression be recognised for what it is.
-/
import Fips204.Impl.Pack
namespace Fips204.Impl.Legacy
open Fips204 Fips204.Gen Fips204.Impl

/-- pinned-tree `bit_unpack`: the range test uses `bot = |b - 2^c + 1|` (derived from the bit length, not from `a`) -/
def bitUnpack (m : Mode) (v : List Nat) (a b : Int) : M (Option Poly) := do
  let ab ← arith .i32 m "conversion.rs:bit_unpack:a+b" (a + b)
  let bl ← bitLen m ab
  if bl = 0 then throw (Fault.expect "conversion.rs:bit_unpack:bitlen") else
  let (_, _, out) ← v.foldlM (unpackStep m a b bl) (0, 0, [])
  let w := out.reverse
  let w := w ++ List.replicate (256 - w.length) 0
  let bot := absI (b - 2 ^ bl + 1)
  let ok ← isInRange m w bot b
  if ok then pure (some w) else pure none

end Fips204.Impl.Legacy
