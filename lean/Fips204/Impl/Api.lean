/-
  Impl.Api — what the external wrappers of src/lib.rs add: context guards, pre-hash selection,
  and the RNG protocol (DESIGN 3.5).  An entry point is a function of a *script* of RNG responses
  and returns its result together with the log of RNG calls it made.
-/
import Fips204.Impl.MlDsa
namespace Fips204.Impl
open Fips204 Fips204.Gen

inductive RngResp
  | ok (bytes : List Nat)          -- fills the whole buffer (bytes repeated cyclically); `ok []` fails
  | errBefore                      -- error, buffer untouched
  | errAfter (written : List Nat)  -- error after writing a prefix
  deriving Repr, DecidableEq

inductive RngCall | tryFill (n : Nat) | fill (n : Nat) | nextU32 | nextU64
  deriving Repr, DecidableEq

inductive ApiErr | ctx | rng | malformed
  deriving Repr, DecidableEq

abbrev ApiRes (α : Type) := Except ApiErr α

/-- one randomness request as the source makes it: `meth` is the `RngCore` method called on the
    caller's generator, `propagated` whether its error is returned with `?`.
    Result: the buffer the caller continues with (`none` = `Err` returned), the rest of the script, the call. -/
def draw (meth : String) (propagated : Bool) (script : List RngResp) (n : Nat) :
    M (Option (List Nat) × List RngResp × RngCall) :=
  if meth == "try_fill_bytes" then
    match script with
    | RngResp.ok b :: rest =>
      if b.isEmpty then pure (if propagated then none else some (List.replicate n 0), rest, .tryFill n)
      else pure (some ((List.range n).map (fun i => b[i % b.length]!)), rest, .tryFill n)
    | RngResp.errAfter w :: rest =>
      pure (if propagated then none else some ((w.take n) ++ List.replicate (n - w.length) 0), rest, .tryFill n)
    | RngResp.errBefore :: rest => pure (if propagated then none else some (List.replicate n 0), rest, .tryFill n)
    | [] => pure (if propagated then none else some (List.replicate n 0), [], .tryFill n)
  else
    -- any infallible method: the scripted generator of the harness panics in those
    throw (Fault.expect ("rng:" ++ meth))

/-- `KeyGen::try_keygen_with_rng` = Algorithm 1 -/
def keygenWithRng (m : Mode) (O : Oracles) (p : ParamSet) (script : List RngResp) :
    M (ApiRes (PublicKey × PrivateKey) × List RngCall) := do
  match ← draw rngMethod_keygen rngErrPropagated_keygen script rngBytes_keygen with
  | (none, _, c) => pure (.error .rng, [c])
  | (some xi, _, c) =>
    let kp ← keyGenInternal m O CTEST_default p xi
    pure (.ok kp, [c])

def keygenFromSeed (m : Mode) (O : Oracles) (p : ParamSet) (xi : List Nat) : M (PublicKey × PrivateKey) :=
  keyGenInternal m O CTEST_default p xi

/-- `Signer::try_sign_with_rng` = Algorithm 2 -/
def sign (m : Mode) (O : Oracles) (p : ParamSet) (fuel : Nat) (sk : PrivateKey) (msg ctx : List Nat)
    (script : List RngResp) : M (ApiRes SignOut × List RngCall) := do
  let okCtx ← signCtxGuard m ctx.length
  if !okCtx then pure (.error .ctx, []) else
  match ← draw rngMethod_sign rngErrPropagated_sign script rngBytes_sign with
  | (none, _, c) => pure (.error .rng, [c])
  | (some rnd, _, c) =>
    let s ← signInternal m O CTEST_default p fuel sk msg ctx [] [] rnd false
    pure (.ok s, [c])

/-- `Signer::try_hash_sign_with_rng` = Algorithm 4 -/
def hashSign (m : Mode) (O : Oracles) (p : ParamSet) (fuel : Nat) (sk : PrivateKey) (msg ctx : List Nat)
    (ph : Ph) (script : List RngResp) : M (ApiRes SignOut × List RngCall) := do
  let okCtx ← hashSignCtxGuard m ctx.length
  if !okCtx then pure (.error .ctx, []) else
  match ← draw rngMethod_hashSign rngErrPropagated_hashSign script rngBytes_hashSign with
  | (none, _, c) => pure (.error .rng, [c])
  | (some rnd, _, c) =>
    let (oid, phm) := hashMessage O msg ph
    let s ← signInternal m O CTEST_default p fuel sk msg ctx oid phm rnd false
    pure (.ok s, [c])

/-- `_internal_sign` (deprecated test entry point: NIST `mu` shape, caller-supplied rnd) -/
def internalSign (m : Mode) (O : Oracles) (p : ParamSet) (fuel : Nat) (sk : PrivateKey) (msg ctx rnd : List Nat) :
    M (ApiRes SignOut) := do
  let okCtx ← internalSignCtxGuard m ctx.length
  if !okCtx then pure (.error .ctx) else
  let s ← signInternal m O CTEST_default p fuel sk msg ctx [] [] rnd true
  pure (.ok s)

/-- `Verifier::verify` = Algorithm 3 -/
def verify (m : Mode) (O : Oracles) (p : ParamSet) (pk : PublicKey) (msg sig ctx : List Nat) : M Bool := do
  let tooLong ← verifyCtxGuard m ctx.length
  if tooLong then pure false else
  verifyInternal m O CTEST_default p pk msg sig ctx [] [] false

/-- `Verifier::hash_verify` = Algorithm 5 -/
def hashVerify (m : Mode) (O : Oracles) (p : ParamSet) (pk : PublicKey) (msg sig ctx : List Nat) (ph : Ph) : M Bool := do
  let tooLong ← hashVerifyCtxGuard m ctx.length
  if tooLong then pure false else
  let (oid, phm) := hashMessage O msg ph
  verifyInternal m O CTEST_default p pk msg sig ctx oid phm false

def internalVerify (m : Mode) (O : Oracles) (p : ParamSet) (pk : PublicKey) (msg sig ctx : List Nat) : M Bool := do
  let tooLong ← internalVerifyCtxGuard m ctx.length
  if tooLong then pure false else
  verifyInternal m O CTEST_default p pk msg sig ctx [] [] true

/-- `dudect_keygen_sign_with_rng` (feature `dudect`): CTEST = true, two draws -/
def dudectKeygenSign (m : Mode) (O : Oracles) (p : ParamSet) (fuel : Nat) (msg : List Nat) (script : List RngResp) :
    M (ApiRes SignOut × List RngCall) := do
  match ← draw rngMethod_keygen rngErrPropagated_keygen script rngBytes_keygen with
  | (none, _, c) => pure (.error .rng, [c])
  | (some xi, rest, c1) =>
    let (_, sk) ← keyGenInternal m O true p xi
    match ← draw "try_fill_bytes" true rest 32 with
    | (none, _, c2) => pure (.error .rng, [c1, c2])
    | (some rnd, _, c2) =>
      let s ← signInternal m O true p fuel sk msg [1] [2] [3] rnd true
      pure (.ok s, [c1, c2])

end Fips204.Impl
