/-
  Impl.Ntt — model of src/ntt.rs and the vector helpers of src/helpers.rs / src/high_low.rs,
  butterfly for butterfly, over the generated scalar kernels (DESIGN 3.2).
  The Rust loops visit blocks left to right; inside a layer every butterfly reads only the previous
  layer, so the recursion on halves below computes the same values (and faults iff some butterfly
  faults).  Zetas are taken in the same order `m = 1, 2, 3, ...` (forward) / `255, 254, ...` (inverse).
-/
import Fips204.Gen.Kernels
namespace Fips204.Impl
open Fips204 Fips204.Gen

abbrev Poly := List Int

/-- `(i as u8).reverse_bits()` -/
def bitrev8 (i : Nat) : Nat :=
  (List.range 8).foldl (fun acc b => acc + ((i / 2 ^ b) % 2) * 2 ^ (7 - b)) 0

/-- `gen_zeta_table_mont` (const fn): entries from the translated `zeta_entry` / `zeta_step` -/
def genZetaTable (m : Mode) : M (List Int) := do
  let step := fun (st : Int × List (Nat × Int)) (i : Nat) => do
    let e ← zeta_entry m st.1
    let x' ← zeta_step m st.1
    pure (x', (bitrev8 i, e) :: st.2)
  let r ← (List.range zeta_count).foldlM step (zeta_x0, [])
  pure ((List.range 256).map (fun j => match r.2.find? (fun p => p.1 == j) with
    | some p => p.2 | none => 0))

@[irreducible] def zetaTable : List Int := match genZetaTable .release with | .ok t => t | .error _ => []
@[irreducible] def zetaArr : Array Int := zetaTable.toArray

def zeta (site : String) (k : Nat) : M Int :=
  match zetaArr[k]? with | some z => pure z | none => throw (.oob site)

def zipWithM {α β γ} (f : α → β → M γ) : List α → List β → M (List γ)
  | a :: as, b :: bs => do let c ← f a b; let cs ← zipWithM f as bs; pure (c :: cs)
  | _, _ => pure []

def zipWith3M {α β γ δ} (f : α → β → γ → M δ) : List α → List β → List γ → M (List δ)
  | a :: as, b :: bs, c :: cs => do let d ← f a b c; let ds ← zipWith3M f as bs cs; pure (d :: ds)
  | _, _, _ => pure []

/-- forward butterflies on one block of `2^d` coefficients whose zeta index is `k` -/
def nttRec (m : Mode) : Nat → Nat → Poly → M Poly
  | 0, _, w => pure w
  | d + 1, k, w => do
    let half := w.length / 2
    let lo := w.take half
    let hi := w.drop half
    let z ← zeta "ntt.rs:ntt:ZETA_TABLE_MONT[m]" k
    let ts ← hi.mapM (fun x => do
      let p ← arith .i64 m "ntt.rs:ntt:zeta*w" (z * x)
      mont_reduce m p)
    let hi' ← zipWithM (fun a t => arith .i32 m "ntt.rs:ntt:w[j]-t" (a - t)) lo ts
    let lo' ← zipWithM (fun a t => arith .i32 m "ntt.rs:ntt:w[j]+t" (a + t)) lo ts
    let l ← nttRec m d (2 * k) lo'
    let h ← nttRec m d (2 * k + 1) hi'
    pure (l ++ h)

def nttPoly (m : Mode) (w : Poly) : M Poly := nttRec m 8 1 w
def ntt (m : Mode) (ws : List Poly) : M (List Poly) := ws.mapM (nttPoly m)

/-- inverse butterflies: children first (`len` grows), zeta index of a block is `k` -/
def invRec (m : Mode) : Nat → Nat → Poly → M Poly
  | 0, _, w => pure w
  | d + 1, k, w => do
    let half := w.length / 2
    let lo ← invRec m d (2 * k + 1) (w.take half)
    let hi ← invRec m d (2 * k) (w.drop half)
    let z0 ← zeta "ntt.rs:inv_ntt:ZETA_TABLE_MONT[m]" k
    let z ← arith .i32 m "ntt.rs:inv_ntt:-zeta" (-z0)
    let sums ← zipWithM (fun t u => arith .i32 m "ntt.rs:inv_ntt:t+w[j+len]" (t + u)) lo hi
    let diffs ← zipWithM (fun t u => do
      let d ← arith .i32 m "ntt.rs:inv_ntt:t-w[j+len]" (t - u)
      let p ← arith .i64 m "ntt.rs:inv_ntt:zeta*w" (z * d)
      mont_reduce m p) lo hi
    pure (sums ++ diffs)

/-- inverse transform of one polynomial, parameterised by the copy-in step
    (identity on the pinned tree = `Legacy`, `partial_reduce32` after fix 4f7cc8d) -/
def invNttPolyWith (copyIn : Mode → Int → M Int) (m : Mode) (w : Poly) : M Poly := do
  let w0 ← w.mapM (copyIn m)
  let w1 ← invRec m 8 1 w0
  w1.mapM (fun x => do
    let p ← arith .i64 m "ntt.rs:inv_ntt:F_MONT*w" (F_MONT * x)
    let r ← mont_reduce m p
    full_reduce32 m r)

def invNttPoly (m : Mode) (w : Poly) : M Poly := invNttPolyWith partial_reduce32 m w
def invNtt (m : Mode) (ws : List Poly) : M (List Poly) := ws.mapM (invNttPoly m)

/-- the pinned tree's `inv_ntt` (unreduced copy-in), kept for the F3 refutation -/
def Legacy.invNttPoly (m : Mode) (w : Poly) : M Poly := invNttPolyWith (fun _ x => pure x) m w

def toMont (m : Mode) (v : List Poly) : M (List Poly) := v.mapM (fun p => p.mapM (to_mont_coeff m))

def zeroPoly : Poly := List.replicate 256 0

def matVecMul (m : Mode) (a : List (List Poly)) (u : List Poly) : M (List Poly) := do
  let um ← toMont m u
  a.mapM (fun row => (row.zip um).foldlM (fun acc au => zipWith3M (mat_vec_mul_acc m) acc au.1 au.2) zeroPoly)

def addVectorNtt (m : Mode) (v w : List Poly) : M (List Poly) :=
  zipWithM (fun p q => zipWithM (fun a b => arith .i32 m "helpers.rs:add_vector_ntt:+" (a + b)) p q) v w

def isInRange (m : Mode) (w : Poly) (lo hi : Int) : M Bool := do
  let nlo ← arith .i32 m "helpers.rs:is_in_range:-lo" (-lo)
  pure (w.all (fun e => decide (e ≥ nlo) && decide (e ≤ hi)))

def infinityNorm (m : Mode) (w : List Poly) : M Int := do
  let vals ← w.flatten.mapM (fun e => do
    let c ← center_mod m e
    arith .i32 m "helpers.rs:infinity_norm:abs" (absI c))
  match vals with
  | [] => throw (.expect "helpers.rs:infinity_norm:expect")
  | v :: vs => pure (vs.foldl (fun a b => if a < b then b else a) v)

/-- `power2round` on a vector, with its two debug assertions -/
def power2round (m : Mode) (r : List Poly) : M (List Poly × List Poly) := do
  dassert m "high_low.rs:power2round:debug_assert(power2round input)"
    (r.all (fun p => p.all (fun e => decide (0 ≤ e) && decide (e < Q))))
  let r1 ← r.mapM (fun p => p.mapM (power2round_r1 m))
  let r0 ← zipWithM (fun p p1 => zipWithM (power2round_r0 m) p p1) r r1
  dassertM m "high_low.rs:power2round:debug_assert(Alg 35: fails)" (do
    let cs ← zipWith3M (fun p p1 p0 => do
      let bs ← zipWith3M (power2round_check m) p p1 p0
      pure (bs.all id)) r r1 r0
    pure (cs.all id))
  pure (r1, r0)

end Fips204.Impl
