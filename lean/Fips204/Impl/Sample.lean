/-
  Impl.Sample — model of src/hashing.rs.  Hash functions are *parameters* (`Oracles`): every
  theorem holds for all oracles; the driver instantiates them with real SHAKE/SHA-2 (Exec/).
  A sampler reads a prefix of the XOF output of length `fuel`; running out is the explicit
  model-only outcome `Fault.fuel` (the crate squeezes without bound).
-/
import Fips204.Impl.Encode
namespace Fips204.Impl
open Fips204 Fips204.Gen

structure Oracles where
  h : List Nat → Nat → List Nat        -- SHAKE256: first n output bytes
  g : List Nat → Nat → List Nat        -- SHAKE128
  sha256 : List Nat → List Nat
  sha512 : List Nat → List Nat
  fuelScale : Nat := 1                  -- multiplies the stream prefix handed to samplers

/-- Algorithm 29 inner `while j > i` loop over the stream -/
def sibFind (i : Nat) : List Nat → Option (Nat × List Nat)
  | [] => none
  | j :: rest => if j > i then sibFind i rest else some (j, rest)

/-- one iteration `for i in (256 - tau)..=255` of Algorithm 29 on the state (c, remaining stream) -/
def sibStep (O : Oracles) (ctest : Bool) (tau : Nat) (hbytes : List Nat) (st : Poly × List Nat) (i : Nat) : M (Poly × List Nat) := do
  let (c, s) := st
  -- CTEST: j starts at i and nothing is squeezed
  let (j, s) ← if ctest then pure (i % 256, s) else
    match sibFind i s with
    | some r => pure r
    | none => throw (Fault.fuel "hashing.rs:sample_in_ball:stream")
  let cj ← idx "hashing.rs:sample_in_ball:c[j]" c j
  let c := c.set i cj
  let index := i + tau - 256
  let bite ← idx "hashing.rs:sample_in_ball:h[index/8]" hbytes (index / 8)
  let shifted := bite / 2 ^ (index % 8)
  let c := c.set j (1 - 2 * Int.ofNat (shifted % 2))
  pure (c, s)

/-- Algorithm 29 `sample_in_ball::<CTEST>` -/
def sampleInBall (m : Mode) (O : Oracles) (ctest : Bool) (tau : Int) (rho : List Nat) : M Poly := do
  if tau < 0 then throw (Fault.expect "hashing.rs:sample_in_ball:try_from") else
  let tau := tau.toNat
  if tau > 256 then throw (Fault.overflow "hashing.rs:sample_in_ball:256-tau") else
  let stream := O.h rho (8 + 1360 * O.fuelScale)
  let hbytes := stream.take 8
  let (c, _) ← ((List.range tau).map (fun t => 256 - tau + t)).foldlM (sibStep O ctest tau hbytes) (zeroPoly, stream.drop 8)
  dassert m "hashing.rs:sample_in_ball:debug_assert(Alg 29: bad hamming weight (a))" ((c.filter (fun e => e ≠ 0)).length == tau)
  dassert m "hashing.rs:sample_in_ball:debug_assert(Alg 29: bad hamming weight (b))"
    (decide ((c.map (fun e => band .i32 e 1)).foldl (· + ·) 0 = Int.ofNat tau))
  pure c

/-- Algorithm 30 loop: consume three bytes at a time until 256 coefficients are accepted -/
def rejNttLoop (m : Mode) (ctest : Bool) : Nat → List Nat → List Int → M (List Int)
  | 0, _, _ => throw (Fault.fuel "hashing.rs:rej_ntt_poly:stream")
  | fuel + 1, s, acc =>
    if acc.length ≥ 256 then pure acc.reverse else
    match s with
    | b0 :: b1 :: b2 :: rest => do
      match ← coeff_from_three_bytes m ctest b0 b1 b2 with
      | some v => rejNttLoop m ctest fuel rest (v :: acc)
      | none => rejNttLoop m ctest fuel rest acc
    | _ => throw (Fault.fuel "hashing.rs:rej_ntt_poly:stream")

/-- Algorithm 30 `rej_ntt_poly::<CTEST>` on the concatenated seed -/
def rejNttPoly (m : Mode) (O : Oracles) (ctest : Bool) (rho : List Nat) : M Poly := do
  dassert m "hashing.rs:rej_ntt_poly:debug_assert_eq(Alg 30: bad rho size)" (rho.length == 34)
  let n := 1680 * O.fuelScale
  rejNttLoop m ctest (n / 3 + 2) (O.g rho n) []

/-- Algorithm 31 loop -/
def rejBoundedLoop (m : Mode) (ctest : Bool) (eta : Int) : Nat → List Nat → List Int → M (List Int)
  | 0, _, _ => throw (Fault.fuel "hashing.rs:rej_bounded_poly:stream")
  | fuel + 1, s, acc =>
    if acc.length ≥ 256 then pure acc.reverse else
    match s with
    | z :: rest => do
      let z0 ← coeff_from_half_byte m ctest eta (band .u8 z 15)
      let z1 ← coeff_from_half_byte m ctest eta (z / 16)
      let acc := match z0 with | some v => v :: acc | none => acc
      let acc := match z1 with | some v => if acc.length < 256 then v :: acc else acc | none => acc
      rejBoundedLoop m ctest eta fuel rest acc
    | [] => throw (Fault.fuel "hashing.rs:rej_bounded_poly:stream")

/-- Algorithm 31 `rej_bounded_poly::<CTEST>` -/
def rejBoundedPoly (m : Mode) (O : Oracles) (ctest : Bool) (eta : Int) (rho : List Nat) : M Poly := do
  dassert m "hashing.rs:rej_bounded_poly:debug_assert_eq(Alg 31: bad rho size)" (rho.length == 66)
  let n := 1088 * O.fuelScale
  rejBoundedLoop m ctest eta (n + 2) (O.h rho n) []

/-- Algorithm 32 `expand_a` -/
def expandA (m : Mode) (O : Oracles) (ctest : Bool) (p : ParamSet) (rho : List Nat) : M (List (List Poly)) :=
  (List.range p.k).mapM (fun r => (List.range p.l).mapM (fun s =>
    rejNttPoly m O ctest (rho ++ [s % 256, r % 256])))

/-- Algorithm 33 `expand_s` -/
def expandS (m : Mode) (O : Oracles) (ctest : Bool) (p : ParamSet) (rho : List Nat) : M (List Poly × List Poly) := do
  let s1 ← (List.range p.l).mapM (fun r => rejBoundedPoly m O ctest p.eta (rho ++ [r % 256, 0]))
  let s2 ← (List.range p.k).mapM (fun r => rejBoundedPoly m O ctest p.eta (rho ++ [(r + p.l) % 256, 0]))
  dassertM m "hashing.rs:expand_s:debug_assert(Alg 33: s1 out of range)" (do
    let bs ← s1.mapM (fun r => isInRange m r p.eta p.eta); pure (bs.all id))
  dassertM m "hashing.rs:expand_s:debug_assert(Alg 33: s2 out of range)" (do
    let bs ← s2.mapM (fun r => isInRange m r p.eta p.eta); pure (bs.all id))
  pure (s1, s2)

/-- Algorithm 34 `expand_mask` (`mu` is the u16 counter kappa) -/
def expandMask (m : Mode) (O : Oracles) (p : ParamSet) (rho : List Nat) (mu : Int) : M (List Poly) := do
  let g1 ← arith .i32 m "hashing.rs:expand_mask:gamma1-1" (p.gamma1 - 1)
  let bl ← bitLen m g1
  let c := 1 + bl
  dassert m "hashing.rs:expand_mask:debug_assert(Alg 34: illegal c)" (c == 18 || c == 20)
  if p.l > 65535 then throw (Fault.expect "hashing.rs:expand_mask:try_from1") else
  let ys ← (List.range p.l).mapM (fun (r : Nat) => do
    let n ← arith .u16 m "hashing.rs:expand_mask:mu+r" (mu + Int.ofNat r)
    let v := O.h (rho ++ [(n % 256).toNat, (n / 256).toNat]) 640
    let vs ← slice "hashing.rs:expand_mask:v[0..32*c]" v 0 (32 * c)
    match ← bitUnpack m vs g1 p.gamma1 with
    | some y => pure y
    | none => throw (Fault.expect "hashing.rs:expand_mask:Alg 34: try_from2 fail"))
  dassertM m "hashing.rs:expand_mask:debug_assert(Alg 34: s coeff out of range)" (do
    let bs ← ys.mapM (fun r => isInRange m r g1 p.gamma1); pure (bs.all id))
  pure ys

inductive Ph | sha256 | sha512 | shake128
  deriving DecidableEq, Repr

/-- `hash_message`: (OID, pre-hash bytes actually signed = phm[0..len]) -/
def hashMessage (O : Oracles) (msg : List Nat) : Ph → (List Nat × List Nat)
  | .sha256 =>
    let phm := ((O.sha256 msg).take phWritten_SHA256) ++ List.replicate (64 - phWritten_SHA256) 0
    (oid_SHA256, phm.take phLen_SHA256)
  | .sha512 =>
    let phm := ((O.sha512 msg).take phWritten_SHA512) ++ List.replicate (64 - phWritten_SHA512) 0
    (oid_SHA512, phm.take phLen_SHA512)
  | .shake128 =>
    let phm := (O.g msg phWritten_SHAKE128) ++ List.replicate (64 - phWritten_SHAKE128) 0
    (oid_SHAKE128, phm.take phLen_SHAKE128)

end Fips204.Impl
