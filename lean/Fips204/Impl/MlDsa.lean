/-
  Impl.MlDsa — model of src/ml_dsa.rs and the serialisers of src/lib.rs, statement by statement,
  on key structs with the crate's own fields (NTT-domain Montgomery precomputes).
-/
import Fips204.Impl.Sample
import Fips204.Gen.Decisions
namespace Fips204.Impl
open Fips204 Fips204.Gen

structure PublicKey where
  rho : List Nat
  tr : List Nat
  t1d2 : List Poly          -- t1_d2_hat_mont
  deriving Repr, DecidableEq

structure PrivateKey where
  rho : List Nat
  key : List Nat            -- cap_k
  tr : List Nat
  s1 : List Poly            -- s_1_hat_mont
  s2 : List Poly            -- s_2_hat_mont
  t0 : List Poly            -- t_0_hat_mont
  deriving Repr, DecidableEq

/-- `to_mont(&ntt(x))` -/
def nttMont (m : Mode) (x : List Poly) : M (List Poly) := do toMont m (← ntt m x)

/-- the verifier precompute `to_mont(mont_reduce(to_mont(ntt(t1)) << D))` -/
def precomputeT1 (m : Mode) (t1 : List Poly) : M (List Poly) := do
  let t1hm ← nttMont m t1
  let sh ← t1hm.mapM (fun p => p.mapM (fun x => mont_reduce m (IT.i64.wrap (x * 2 ^ D.toNat))))
  toMont m sh

/-- `c_hat ∘ v_hat_mont` through `mont_reduce`, then `inv_ntt` -/
def mulInv (m : Mode) (site : String) (chat : Poly) (v : List Poly) : M (List Poly) := do
  let prods ← v.mapM (fun s => zipWithM (fun c x => do
    let p ← arith .i64 m site (c * x)
    mont_reduce m p) chat s)
  invNtt m prods

/-- mont→norm each coefficient, inverse NTT, re-centre around 0 (shared by the serialisers and derive) -/
def unMontCentered (m : Mode) (v : List Poly) : M (List Poly) := do
  let a ← v.mapM (fun p => p.mapM (mont_reduce m))
  let b ← invNtt m a
  b.mapM (fun p => p.mapM (fun x => if x > Int.tdiv Q 2 then arith .i32 m "lib.rs:into_bytes:x-Q" (x - Q) else pure x))

/-- Algorithm 6 `key_gen_internal::<CTEST,..>` -/
def keyGenInternal (m : Mode) (O : Oracles) (ctest : Bool) (p : ParamSet) (xi : List Nat) : M (PublicKey × PrivateKey) := do
  let hh := O.h (xi ++ [p.k % 256, p.l % 256]) 128
  let rho := hh.take 32
  let rhoPrime := (hh.drop 32).take 64
  let capK := (hh.drop 96).take 32
  let (s1, s2) ← expandS m O ctest p rhoPrime
  let aHat ← expandA m O ctest p rho
  let s1Hat ← ntt m s1
  let as1 ← matVecMul m aHat s1Hat
  let tnr ← addVectorNtt m (← invNtt m as1) s2
  let t ← tnr.mapM (fun q => q.mapM (full_reduce32 m))
  let (t1, t0) ← power2round m t
  let pkb ← pkEncode m p rho t1
  let tr := O.h pkb 64
  let t1d2 ← precomputeT1 m t1
  let pk : PublicKey := { rho := rho, tr := tr, t1d2 := t1d2 }
  let s1hm ← nttMont m s1
  let s2hm ← nttMont m s2
  let t0hm ← nttMont m t0
  pure (pk, { rho := rho, key := capK, tr := tr, s1 := s1hm, s2 := s2hm, t0 := t0hm })

/-- message representative: the three shapes selected by `nist` and `oid.is_empty()` -/
def muOf (O : Oracles) (domPure domHash : Nat) (tr msg ctx oid phm : List Nat) (nist : Bool) : List Nat :=
  if nist then O.h (tr ++ msg) 64
  else if oid.isEmpty then O.h (tr ++ [domPure] ++ [ctxLenByte ctx.length] ++ ctx ++ msg) 64
  else O.h (tr ++ [domHash] ++ [ctxLenByte ctx.length] ++ ctx ++ oid ++ phm) 64

structure SignOut where
  sig : List Nat
  iters : Nat

/-- one pass of the rejection loop; `none` = rejected (continue) -/
def signAttempt (m : Mode) (O : Oracles) (ctest : Bool) (p : ParamSet) (sk : PrivateKey) (aHat : List (List Poly))
    (mu rhoPP : List Nat) (kappa : Int) : M (Option (List Nat × List Poly × List Poly)) := do
  let beta := p.beta
  let y ← expandMask m O p rhoPP kappa
  let w ← invNtt m (← matVecMul m aHat (← ntt m y))
  let w1 ← w.mapM (fun q => q.mapM (high_bits m p.gamma2))
  let w1t ← w1Encode m p w1 p.w1Len
  let cTilde := O.h (mu ++ w1t) p.lambdaDiv4
  let c ← sampleInBall m O ctest p.tau cTilde
  let chats ← ntt m [c]
  let chat ← idx "ml_dsa.rs:sign_internal:ntt(&[c])[0]" chats 0
  let cs1 ← mulInv m "ml_dsa.rs:sign_internal:c_hat*s1" chat sk.s1
  let cs2 ← mulInv m "ml_dsa.rs:sign_internal:c_hat*s2" chat sk.s2
  let z ← zipWithM (fun yp cp => zipWithM (fun a b => do
    let s ← arith .i32 m "ml_dsa.rs:sign_internal:y+cs1" (a + b)
    partial_reduce32 m s) yp cp) y cs1
  let r0 ← zipWithM (fun wp cp => zipWithM (fun a b => do
    let s ← arith .i32 m "ml_dsa.rs:sign_internal:w-cs2" (a - b)
    let r ← partial_reduce32 m s
    low_bits m p.gamma2 r) wp cp) w cs2
  let zNorm ← infinityNorm m z
  let r0Norm ← infinityNorm m r0
  let g1b ← arith .i32 m "ml_dsa.rs:sign_internal:gamma1-beta" (p.gamma1 - beta)
  let g2b ← arith .i32 m "ml_dsa.rs:sign_internal:gamma2-beta" (p.gamma2 - beta)
  if !ctest && (decide (zNorm ≥ g1b) || decide (r0Norm ≥ g2b)) then pure none else
  let ct0 ← mulInv m "ml_dsa.rs:sign_internal:c_hat*t0" chat sk.t0
  let h ← zipWith3M (fun wp c2p c0p => zipWith3M (fun a b c0 => do
    let qc ← arith .i32 m "ml_dsa.rs:sign_internal:Q-ct0" (Q - c0)
    let s1 ← arith .i32 m "ml_dsa.rs:sign_internal:w-cs2" (a - b)
    let s2 ← arith .i32 m "ml_dsa.rs:sign_internal:w-cs2+ct0" (s1 + c0)
    let r ← partial_reduce32 m s2
    let hb ← make_hint m p.gamma2 qc r
    pure (if hb then (1 : Int) else 0)) wp c2p c0p) w cs2 ct0
  if ctest then pure (some (cTilde, z, h)) else
  let ct0Norm ← infinityNorm m ct0
  let hsum ← (h.map (fun q => q.foldl (· + ·) 0)).foldlM (fun a b => arith .i32 m "ml_dsa.rs:sign_internal:sum" (a + b)) 0
  if decide (ct0Norm ≥ p.gamma2) || decide (hsum > p.omega) then pure none else
  pure (some (cTilde, z, h))

/-- the rejection loop; the counter `kappa` is a `u16` stepped by `L` -/
def signLoop (m : Mode) (O : Oracles) (ctest : Bool) (p : ParamSet) (sk : PrivateKey) (aHat : List (List Poly))
    (mu rhoPP : List Nat) : Nat → Int → Nat → M (List Nat × List Poly × List Poly × Nat)
  | 0, _, _ => throw (Fault.fuel "ml_dsa.rs:sign_internal:loop")
  | fuel + 1, kappa, it => do
    match ← signAttempt m O ctest p sk aHat mu rhoPP kappa with
    | some (c, z, h) => pure (c, z, h, it + 1)
    | none =>
      if p.l > 65535 then throw (Fault.expect "ml_dsa.rs:sign_internal:u16::try_from(L)") else
      let k' ← arith .u16 m "ml_dsa.rs:sign_internal:kappa_ctr+=L" (kappa + Int.ofNat p.l)
      signLoop m O ctest p sk aHat mu rhoPP fuel k' (it + 1)

/-- Algorithm 7 `sign_internal::<CTEST,..>`; `fuel` bounds the number of attempts -/
def signInternal (m : Mode) (O : Oracles) (ctest : Bool) (p : ParamSet) (fuel : Nat) (sk : PrivateKey)
    (msg ctx oid phm rnd : List Nat) (nist : Bool) : M SignOut := do
  let aHat ← expandA m O ctest p sk.rho
  let mu := muOf O domPure_sign domHash_sign sk.tr msg ctx oid phm nist
  let rhoPP := O.h (sk.key ++ rnd ++ mu) 64
  let (cTilde, z, h, it) ← signLoop m O ctest p sk aHat mu rhoPP fuel 0 0
  let zmodq ← z.mapM (fun q => q.mapM (center_mod m))
  let sig ← sigEncode m ctest p cTilde zmodq h
  pure { sig := sig, iters := it }

/-- `w'_Approx = invNTT(A_hat ∘ NTT(z) - NTT(c) ∘ NTT(t1 2^d))` of Algorithm 8 step 9, as the crate computes it:
    lazy forward transform, unreduced matrix-vector accumulation, Montgomery product with the key precompute -/
def wApproxOf (m : Mode) (aHat : List (List Poly)) (z : List Poly) (c : Poly) (t1d2 : List Poly) : M (List Poly) := do
  let zHat ← ntt m z
  let az ← matVecMul m aHat zHat
  let chats ← ntt m [c]
  let chat ← idx "ml_dsa.rs:verify_internal:ntt(&[c])[0]" chats 0
  let diff ← zipWithM (fun ap tp => zipWith3M (fun a c t => do
    let pr ← arith .i64 m "ml_dsa.rs:verify_internal:c_hat*t1" (c * t)
    let r ← mont_reduce m pr
    arith .i32 m "ml_dsa.rs:verify_internal:az-ct1" (a - r)) ap chat tp) az t1d2
  invNtt m diff

/-- Algorithm 8 `verify_internal` (CTEST only reaches `expand_a`; callers pass `false`) -/
def verifyInternal (m : Mode) (O : Oracles) (ctest : Bool) (p : ParamSet) (pk : PublicKey)
    (msg sig ctx oid phm : List Nat) (nist : Bool) : M Bool := do
  match ← sigDecode m p sig with
  | none => pure false
  | some (cTilde, z, h) =>
  dassertM m "ml_dsa.rs:verify_internal:debug_assert(Alg 8: i_norm out of range)" (do
    let n ← infinityNorm m z
    pure (decide (n ≤ p.gamma1)))
  let mu := muOf O domPure_verify domHash_verify pk.tr msg ctx oid phm nist
  let c ← sampleInBall m O false p.tau cTilde
  let aHat ← expandA m O ctest p pk.rho
  let wApprox ← wApproxOf m aHat z c pk.t1d2
  let w1 ← zipWithM (fun hp wp => zipWithM (fun hh r => use_hint m p.gamma2 hh r) hp wp) h wApprox
  let w1t ← w1Encode m p w1 p.w1Len
  let cTildeP := O.h (mu ++ w1t) p.lambdaDiv4
  let zn ← infinityNorm m z
  let g1b ← arith .i32 m "ml_dsa.rs:verify_internal:gamma1-beta" (p.gamma1 - p.beta)
  let left := decide (zn < g1b)
  let right := decide (cTilde = cTildeP)
  pure (left && right)

/-- `expand_private`; `none` = `Err` (malformed key) -/
def expandPrivate (m : Mode) (p : ParamSet) (skb : List Nat) : M (Option PrivateKey) := do
  match ← skDecode m p skb with
  | none => pure none
  | some s =>
    let s1 ← nttMont m s.s1
    let s2 ← nttMont m s.s2
    let t0 ← nttMont m s.t0
    pure (some { rho := s.rho, key := s.key, tr := s.tr, s1 := s1, s2 := s2, t0 := t0 })

/-- `expand_public`; `none` = `Err` -/
def expandPublic (m : Mode) (O : Oracles) (p : ParamSet) (pkb : List Nat) : M (Option PublicKey) := do
  match ← pkDecode m p pkb with
  | none => pure none
  | some d =>
    let tr := O.h pkb 64
    let t1d2 ← precomputeT1 m d.t1
    pure (some { rho := d.rho, tr := tr, t1d2 := t1d2 })

/-- `private_to_public_key` (after fix 0639504: no t0 recomputation, no assertion) -/
def privateToPublicKey (m : Mode) (O : Oracles) (p : ParamSet) (sk : PrivateKey) : M PublicKey := do
  let aHat ← expandA m O false p sk.rho
  let s1Hat ← sk.s1.mapM (fun q => q.mapM (mont_reduce m))
  let s2 ← unMontCentered m sk.s2
  let as1 ← matVecMul m aHat s1Hat
  let tnr ← addVectorNtt m (← invNtt m as1) s2
  let t ← tnr.mapM (fun q => q.mapM (full_reduce32 m))
  let (t1, _) ← power2round m t
  let t1d2 ← precomputeT1 m t1
  pure { rho := sk.rho, tr := sk.tr, t1d2 := t1d2 }

/-- `SerDes::into_bytes` for the private key -/
def skIntoBytes (m : Mode) (p : ParamSet) (sk : PrivateKey) : M (List Nat) := do
  let s1 ← unMontCentered m sk.s1
  let s2 ← unMontCentered m sk.s2
  let t0 ← unMontCentered m sk.t0
  skEncode m p { rho := sk.rho, key := sk.key, tr := sk.tr, s1 := s1, s2 := s2, t0 := t0 }

/-- `SerDes::into_bytes` for the public key -/
def pkIntoBytes (m : Mode) (p : ParamSet) (pk : PublicKey) : M (List Nat) := do
  let a ← pk.t1d2.mapM (fun q => q.mapM (mont_reduce m))
  let t1d2 ← invNtt m a
  let t1 := t1d2.map (fun q => q.map (fun x => x / 2 ^ D.toNat))
  pkEncode m p pk.rho t1

end Fips204.Impl
