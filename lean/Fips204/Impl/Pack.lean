/-
  Impl.Pack — model of src/conversion.rs (BitPack/BitUnpack, HintBitPack/HintBitUnpack),
  mirroring the streaming accumulators (`temp`, `bit_index`) and the `u8` index arithmetic.
  Bytes are `Nat` (< 256 by construction on the encoder side, by hypothesis on the decoder side).
-/
import Fips204.Impl.Ntt
namespace Fips204.Impl
open Fips204 Fips204.Gen

def bitLen (m : Mode) (x : Int) : M Nat := do let r ← bit_length m x; pure r.toNat

/-- drain whole bytes out of the accumulator: `while bit_index > 7 { out.push(temp as u8); temp >>= 8; .. }` -/
def drainBytes : Nat → Int → Nat → List Nat → (Int × Nat × List Nat)
  | 0, temp, bi, out => (temp, bi, out)
  | fuel + 1, temp, bi, out =>
    if bi > 7 then drainBytes fuel (temp / 256) (bi - 8) ((temp % 256).toNat :: out) else (temp, bi, out)

/-- the per-coefficient step of `bit_pack`: or the field into the accumulator, drain whole bytes -/
def packStep (m : Mode) (a b : Int) (bl outLen : Nat) (st : Int × Nat × List Nat) (coeff : Int) : M (Int × Nat × List Nat) := do
  let (temp, bi, out) := st
  let v := if a > 0 then absI (b - coeff) else absI coeff      -- abs_diff / unsigned_abs : u32
  let sh ← shl .u32 m "conversion.rs:bit_pack:<<bit_index" v bi
  let temp := bor .u32 temp sh
  let (temp, bi, out) := drainBytes 8 temp (bi + bl) out
  if out.length > outLen then throw (Fault.oob "conversion.rs:bit_pack:bytes_out[byte_index]") else
  pure (temp, bi, out)

/-- Algorithm 17 `bit_pack` (output bytes; `outLen` is the length of the slice the caller passes) -/
def bitPack (m : Mode) (w : Poly) (a b : Int) (outLen : Nat) : M (List Nat) := do
  dassert m "conversion.rs:bit_pack:debug_assert(Alg 17: a out of range)" (decide (0 ≤ a) && decide (a < 1048576))
  dassert m "conversion.rs:bit_pack:debug_assert(Alg 17: b out of range)" (decide (1 ≤ b) && decide (b < 1048576))
  dassertM m "conversion.rs:bit_pack:debug_assert(Alg 17: w out of range)" (isInRange m w a b)
  let ab ← arith .i32 m "conversion.rs:bit_pack:a+b" (a + b)
  dassertM m "conversion.rs:bit_pack:debug_assert_eq(Alg 17: bad output size)" (do
    let bl ← bitLen m ab
    pure (w.length * bl == outLen * 8))
  let bl ← bitLen m ab
  let (_, _, out) ← w.foldlM (packStep m a b bl outLen) (0, 0, [])
  let out := out.reverse
  pure (out ++ List.replicate (outLen - out.length) 0)

def simpleBitPack (m : Mode) (w : Poly) (b : Int) (outLen : Nat) : M (List Nat) := do
  dassert m "conversion.rs:simple_bit_pack:debug_assert(Alg 16: b out of range)" (decide (1 ≤ b) && decide (b < 1048576))
  dassertM m "conversion.rs:simple_bit_pack:debug_assert(Alg 16: w out of range)" (isInRange m w 0 b)
  dassertM m "conversion.rs:simple_bit_pack:debug_assert_eq(Alg 16: incorrect size)" (do
    let bl ← bitLen m b
    pure (outLen == 32 * bl))
  bitPack m w 0 b outLen

/-- pop coefficients out of the accumulator: `while bit_index >= bitlen { .. }` -/
def drainCoeffs (m : Mode) (a b : Int) (bl : Nat) : Nat → Int → Nat → List Int → M (Int × Nat × List Int)
  | 0, temp, bi, out => pure (temp, bi, out)
  | fuel + 1, temp, bi, out =>
    if bi ≥ bl then do
      let tmask := band .i32 temp (2 ^ bl - 1)
      let c ← if a = 0 then pure tmask else arith .i32 m "conversion.rs:bit_unpack:b-tmask" (b - tmask)
      drainCoeffs m a b bl fuel (temp / 2 ^ bl) (bi - bl) (c :: out)
    else pure (temp, bi, out)

/-- the per-byte step of `bit_unpack`: shift the byte into the accumulator, pop whole coefficients -/
def unpackStep (m : Mode) (a b : Int) (bl : Nat) (st : Int × Nat × List Int) (byte : Nat) : M (Int × Nat × List Int) := do
  let (temp, bi, out) := st
  let sh ← shl .i32 m "conversion.rs:bit_unpack:<<bit_index" (Int.ofNat byte) bi
  let temp := bor .i32 temp sh
  let (temp, bi, out) ← drainCoeffs m a b bl 8 temp (bi + 8) out
  if out.length > 256 then throw (Fault.oob "conversion.rs:bit_unpack:w_out[r_index]") else
  pure (temp, bi, out)

/-- Algorithm 19 `bit_unpack`; `none` is the `ensure!` error -/
def bitUnpack (m : Mode) (v : List Nat) (a b : Int) : M (Option Poly) := do
  dassert m "conversion.rs:bit_unpack:debug_assert(Alg 19: a out of range)" (decide (0 ≤ a) && decide (a < 1048576))
  dassert m "conversion.rs:bit_unpack:debug_assert(Alg 19: b out of range)" (decide (1 ≤ b) && decide (b < 1048576))
  let ab ← arith .i32 m "conversion.rs:bit_unpack:a+b" (a + b)
  let bl ← bitLen m ab
  dassert m "conversion.rs:bit_unpack:debug_assert_eq(Alg 19: bad output size)" (v.length == 32 * bl)
  if bl = 0 then throw (Fault.expect "conversion.rs:bit_unpack:bitlen") else
  let (_, _, out) ← v.foldlM (unpackStep m a b bl) (0, 0, [])
  let w := out.reverse
  let w := w ++ List.replicate (256 - w.length) 0
  let ok ← isInRange m w a b
  if ok then pure (some w) else pure none

def simpleBitUnpack (m : Mode) (v : List Nat) (b : Int) : M (Option Poly) := do
  dassert m "conversion.rs:simple_bit_unpack:debug_assert(Alg 18: b out of range)" (decide (1 ≤ b) && decide (b < 1048576))
  dassertM m "conversion.rs:simple_bit_unpack:debug_assert_eq(Alg 18: bad output size)" (do
    let bl ← bitLen m b
    pure (v.length == 32 * bl))
  bitUnpack m v 0 b

/-- checked write `y[i] = x` -/
def setAt (site : String) (y : List Nat) (i : Nat) (x : Nat) : M (List Nat) :=
  if i < y.length then pure (y.set i x) else throw (.oob site)

/-- number of coefficients equal to 1 in a polynomial -/
def countOnes (p : Poly) : Int := (p.filter (fun e => e = 1)).foldl (fun s e => s + e) 0

/-- inner loop body of Algorithm 20: `if CTEST || h[i][j] != 0 { y[index] = j; index += 1 }` -/
def hintPackInner (ctest : Bool) (outLen : Nat) (st : List Nat × Nat) (je : Nat × Int) : M (List Nat × Nat) := do
  let (y, index) := st
  if ctest && decide (index > outLen - 1) then pure (y, index) else
  if ctest || decide (je.2 ≠ 0) then do
    let y ← setAt "conversion.rs:hint_bit_pack:y_bytes[index]" y index (je.1 % 256)
    pure (y, index + 1)
  else pure (y, index)

/-- outer loop body of Algorithm 20: one polynomial, then `y[omega + i] = index` -/
def hintPackOuter (ctest : Bool) (outLen om : Nat) (st : List Nat × Nat) (ip : Nat × Poly) : M (List Nat × Nat) := do
  let (y, index) ← (List.zip (List.range 256) ip.2).foldlM (hintPackInner ctest outLen) st
  let y ← setAt "conversion.rs:hint_bit_pack:y_bytes[omega+i]" y (om + ip.1) (index % 256)
  pure (y, index)

/-- Algorithm 20 `hint_bit_pack::<CTEST, K>` -/
def hintBitPack (m : Mode) (ctest : Bool) (omega : Int) (h : List Poly) (outLen : Nat) : M (List Nat) := do
  if omega < 0 then throw (Fault.expect "conversion.rs:hint_bit_pack:try_from") else
  let k := h.length
  let om := omega.toNat
  dassert m "conversion.rs:hint_bit_pack:debug_assert(Alg 20: omega+K out of range)" (decide (1 ≤ om + k) && decide (om + k < 256))
  dassert m "conversion.rs:hint_bit_pack:debug_assert_eq(Alg 20: bad output size)" (outLen == om + k)
  dassertM m "conversion.rs:hint_bit_pack:debug_assert(Alg 20: h not 0/1)" (do
    let bs ← h.mapM (fun p => isInRange m p 0 1)
    pure (bs.all id))
  dassert m "conversion.rs:hint_bit_pack:debug_assert(Alg 20: too many 1's in h)" (h.all (fun p => decide (countOnes p ≤ omega)))
  let (y, _) ← (List.zip (List.range k) h).foldlM (hintPackOuter ctest outLen om) (List.replicate outLen 0, 0)
  pure y

/-- the `while Index < y[omega + i]` loop of Algorithm 21; `none` = malformed -/
def hintInner (y : List Nat) (first limit : Nat) : Nat → Nat → Poly → M (Option (Nat × Poly))
  | 0, index, hp => pure (some (index, hp))
  | fuel + 1, index, hp =>
    if index < limit then do
      let cur ← idx "conversion.rs:hint_bit_unpack:y_bytes[index]" y index
      if index > first then do
        let prev ← idx "conversion.rs:hint_bit_unpack:y_bytes[index-1]" y (index - 1)
        if prev ≥ cur then pure none else
        if cur < hp.length then hintInner y first limit fuel (index + 1) (hp.set cur 1)
        else throw (Fault.oob "conversion.rs:hint_bit_unpack:h[i].0[..]")
      else
        if cur < hp.length then hintInner y first limit fuel (index + 1) (hp.set cur 1)
        else throw (Fault.oob "conversion.rs:hint_bit_unpack:h[i].0[..]")
    else pure (some (index, hp))

def hintOuter (m : Mode) (y : List Nat) (om : Nat) (omByte : Nat) : List Nat → Nat → List Poly → M (Option (Nat × List Poly))
  | [], index, acc => pure (some (index, acc.reverse))
  | i :: is, index, acc => do
    let yi ← idx "conversion.rs:hint_bit_unpack:y_bytes[omega+i]" y (om + i)
    if yi < index || yi > omByte then pure none else
    match ← hintInner y index yi 256 index zeroPoly with
    | none => pure none
    | some (index', hp) => hintOuter m y om omByte is index' (hp :: acc)

/-- Algorithm 21 `hint_bit_unpack::<K>`; `none` = `Err` -/
def hintBitUnpack (m : Mode) (k : Nat) (omega : Int) (y : List Nat) : M (Option (List Poly)) := do
  if omega < 0 then throw (Fault.expect "conversion.rs:hint_bit_unpack:try_from") else
  let om := omega.toNat
  dassert m "conversion.rs:hint_bit_unpack:debug_assert(Alg 21: omega+K too large)" (decide (1 ≤ om + k) && decide (om + k < 256))
  dassert m "conversion.rs:hint_bit_unpack:debug_assert_eq(Alg 21: bad output size)" (y.length == om + k)
  let omByte := om % 256
  match ← hintOuter m y om omByte (List.range k) 0 [] with
  | none => pure none
  | some (index, h) =>
    -- leftover bytes must be zero
    let rest ← (List.range (omByte - index)).mapM (fun d => idx "conversion.rs:hint_bit_unpack:y_bytes[i]" y (index + d))
    if rest.any (fun b => b ≠ 0) then pure none else do
    dassert m "conversion.rs:hint_bit_unpack:debug_assert(Alg 21: too many 1's in h)" (h.all (fun p => decide (countOnes p ≤ omega)))
    pure (some h)

end Fips204.Impl
