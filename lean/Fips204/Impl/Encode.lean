/-
  Impl.Encode — model of src/encodings.rs (pk/sk/sig encode/decode, w1Encode).
-/
import Fips204.Impl.Pack
namespace Fips204.Impl
open Fips204 Fips204.Gen

/-- `BLQD = bit_length(Q - 1) - D` -/
def blqd : Nat := Nat.log2 (Q - 1).toNat + 1 - D.toNat

structure PkParts where
  rho : List Nat
  t1 : List Poly

structure SkParts where
  rho : List Nat
  key : List Nat
  tr : List Nat
  s1 : List Poly
  s2 : List Poly
  t0 : List Poly

/-- Algorithm 22 -/
def pkEncode (m : Mode) (p : ParamSet) (rho : List Nat) (t1 : List Poly) : M (List Nat) := do
  dassertM m "encodings.rs:pk_encode:debug_assert(Alg 22: t1 out of range)" (do
    let bs ← t1.mapM (fun t => isInRange m t 0 (2 ^ blqd - 1))
    pure (bs.all id))
  dassert m "encodings.rs:pk_encode:debug_assert_eq(Alg 22: bad pk/config size)" (p.pkLen == 32 + 32 * p.k * blqd)
  if rho.length ≠ 32 ∨ p.pkLen < 32 then throw (Fault.oob "encodings.rs:pk_encode:copy_from_slice") else
  -- chunks_mut(32*BLQD).take(K): each chunk packed; a short final chunk fails simple_bit_pack's size assert
  let chunks ← (t1.take p.k).mapM (fun t => simpleBitPack m t (2 ^ blqd - 1) (32 * blqd))
  let body := chunks.flatten
  pure ((rho ++ (body ++ List.replicate (p.pkLen - 32 - body.length) 0)).take p.pkLen)

/-- Algorithm 23 -/
def pkDecode (m : Mode) (p : ParamSet) (pk : List Nat) : M (Option PkParts) := do
  dassert m "encodings.rs:pk_decode:debug_assert_eq(Alg 23: incorrect pk length)" (pk.length == 32 + 32 * p.k * blqd)
  dassert m "encodings.rs:pk_decode:debug_assert_eq(Alg 23: bad pk/config size)" (p.pkLen == 32 + 32 * p.k * blqd)
  let rho ← slice "encodings.rs:pk_decode:pk[0..32]" pk 0 32
  let rec go : List Nat → List Poly → M (Option (List Poly))
    | [], acc => pure (some acc.reverse)
    | i :: is, acc => do
      let z ← slice "encodings.rs:pk_decode:pk[..]" pk (32 + 32 * i * blqd) (32 + 32 * (i + 1) * blqd)
      match ← simpleBitUnpack m z (2 ^ blqd - 1) with
      | none => pure none
      | some t => go is (t :: acc)
  match ← go (List.range p.k) [] with
  | none => pure none
  | some t1 =>
    dassertM m "encodings.rs:pk_decode:debug_assert(Alg 23: t1 out of range)" (do
      let bs ← t1.mapM (fun t => isInRange m t 0 (2 ^ blqd - 1))
      pure (bs.all id))
    pure (some { rho := rho, t1 := t1 })

def top : Int := 2 ^ (D.toNat - 1)

/-- Algorithm 24 -/
def skEncode (m : Mode) (p : ParamSet) (s : SkParts) : M (List Nat) := do
  let eta := p.eta
  dassert m "encodings.rs:sk_encode:debug_assert(Alg 24: incorrect eta)" (decide (eta = 2) || decide (eta = 4))
  dassertM m "encodings.rs:sk_encode:debug_assert(Alg 24: s1 out of range)" (do
    let bs ← s.s1.mapM (fun x => isInRange m x eta eta); pure (bs.all id))
  dassertM m "encodings.rs:sk_encode:debug_assert(Alg 24: s2 out of range)" (do
    let bs ← s.s2.mapM (fun x => isInRange m x eta eta); pure (bs.all id))
  dassertM m "encodings.rs:sk_encode:debug_assert(Alg 24: t0 out of range)" (do
    let bs ← s.t0.mapM (fun x => isInRange m x (top - 1) top); pure (bs.all id))
  let bl ← bitLen m (2 * eta)
  dassert m "encodings.rs:sk_encode:debug_assert_eq(Alg 24: bad sk/config size)"
    (p.skLen == 128 + 32 * ((p.k + p.l) * bl + D.toNat * p.k))
  if s.rho.length ≠ 32 ∨ s.key.length ≠ 32 ∨ s.tr.length ≠ 64 then throw (Fault.oob "encodings.rs:sk_encode:copy_from_slice") else
  let step := 32 * bl
  let p1 ← (s.s1.take p.l).mapM (fun x => bitPack m x eta eta step)
  let p2 ← (s.s2.take p.k).mapM (fun x => bitPack m x eta eta step)
  let p3 ← (s.t0.take p.k).mapM (fun x => bitPack m x (top - 1) top (32 * D.toNat))
  let out := s.rho ++ s.key ++ s.tr ++ p1.flatten ++ p2.flatten ++ p3.flatten
  if out.length ≠ p.skLen then throw (Fault.oob "encodings.rs:sk_encode:sk[start..]") else
  pure out

def unpackMany (m : Mode) (site : String) (bytes : List Nat) (start step : Nat) (a b : Int) :
    List Nat → List Poly → M (Option (List Poly))
  | [], acc => pure (some acc.reverse)
  | i :: is, acc => do
    let z ← slice site bytes (start + i * step) (start + (i + 1) * step)
    match ← bitUnpack m z a b with
    | none => pure none
    | some t => unpackMany m site bytes start step a b is (t :: acc)

/-- Algorithm 25 -/
def skDecode (m : Mode) (p : ParamSet) (sk : List Nat) : M (Option SkParts) := do
  let eta := p.eta
  dassert m "encodings.rs:sk_decode:debug_assert(Alg 25: incorrect eta)" (decide (eta = 2) || decide (eta = 4))
  let bl ← bitLen m (2 * eta)
  dassert m "encodings.rs:sk_decode:debug_assert_eq(Alg 25: bad sk/config size)"
    (p.skLen == 128 + 32 * ((p.k + p.l) * bl + D.toNat * p.k))
  let rho ← slice "encodings.rs:sk_decode:sk[0..32]" sk 0 32
  let key ← slice "encodings.rs:sk_decode:sk[32..64]" sk 32 64
  let tr ← slice "encodings.rs:sk_decode:sk[64..128]" sk 64 128
  let step := 32 * bl
  match ← unpackMany m "encodings.rs:sk_decode:s1" sk 128 step eta eta (List.range p.l) [] with
  | none => pure none
  | some s1 =>
  match ← unpackMany m "encodings.rs:sk_decode:s2" sk (128 + p.l * step) step eta eta (List.range p.k) [] with
  | none => pure none
  | some s2 =>
  match ← unpackMany m "encodings.rs:sk_decode:t0" sk (128 + p.l * step + p.k * step) (32 * D.toNat) (top - 1) top (List.range p.k) [] with
  | none => pure none
  | some t0 =>
    dassert m "encodings.rs:sk_decode:debug_assert_eq(Alg 25: length miscalc)"
      (128 + p.l * step + p.k * step + p.k * (32 * D.toNat) == sk.length)
    pure (some { rho := rho, key := key, tr := tr, s1 := s1, s2 := s2, t0 := t0 })

def sigLenOk (m : Mode) (p : ParamSet) : M Bool := do
  let g ← arith .i32 m "encodings.rs:sig:gamma1-1" (p.gamma1 - 1)
  let bl ← bitLen m g
  pure (p.sigLen == p.lambdaDiv4 + p.l * 32 * (1 + bl) + (absI p.omega).toNat + p.k)

/-- Algorithm 26 -/
def sigEncode (m : Mode) (ctest : Bool) (p : ParamSet) (cTilde : List Nat) (z : List Poly) (h : List Poly) : M (List Nat) := do
  let g1 ← arith .i32 m "encodings.rs:sig_encode:gamma1-1" (p.gamma1 - 1)
  dassertM m "encodings.rs:sig_encode:debug_assert(Alg 26: z out of range)" (do
    let bs ← z.mapM (fun x => isInRange m x g1 p.gamma1); pure (bs.all id))
  dassertM m "encodings.rs:sig_encode:debug_assert(Alg 26: h out of range)" (do
    let bs ← h.mapM (fun x => isInRange m x 0 1); pure (bs.all id))
  dassertM m "encodings.rs:sig_encode:debug_assert_eq(Alg 26: bad sig/config size)" (sigLenOk m p)
  if cTilde.length ≠ p.lambdaDiv4 then throw (Fault.oob "encodings.rs:sig_encode:copy_from_slice") else
  let bl ← bitLen m g1
  let step := 32 * (1 + bl)
  let zs ← (z.take p.l).mapM (fun x => bitPack m x g1 p.gamma1 step)
  let start := p.lambdaDiv4 + p.l * step
  if start > p.sigLen then throw (Fault.oob "encodings.rs:sig_encode:sigma[start..]") else
  let hs ← hintBitPack m ctest p.omega h (p.sigLen - start)
  pure (cTilde ++ zs.flatten ++ hs)

/-- Algorithm 27; `none` = `Err` -/
def sigDecode (m : Mode) (p : ParamSet) (sigma : List Nat) : M (Option (List Nat × List Poly × List Poly)) := do
  dassertM m "encodings.rs:sig_decode:debug_assert_eq(Alg 27: bad sig/config size)" (sigLenOk m p)
  let cTilde ← slice "encodings.rs:sig_decode:sigma[0..LAMBDA_DIV4]" sigma 0 p.lambdaDiv4
  let g1 ← arith .i32 m "encodings.rs:sig_decode:gamma1-1" (p.gamma1 - 1)
  let bl ← bitLen m g1
  let step := 32 * (bl + 1)
  match ← unpackMany m "encodings.rs:sig_decode:z" sigma p.lambdaDiv4 step g1 p.gamma1 (List.range p.l) [] with
  | none => pure none
  | some z =>
    let start := p.lambdaDiv4 + p.l * step
    let y ← slice "encodings.rs:sig_decode:sigma[start..]" sigma start sigma.length
    match ← hintBitUnpack m p.k p.omega y with
    | none => pure none
    | some h => pure (some (cTilde, z, h))

/-- Algorithm 28 -/
def w1Encode (m : Mode) (p : ParamSet) (w1 : List Poly) (outLen : Nat) : M (List Nat) := do
  let g2x2 ← arith .i32 m "encodings.rs:w1_encode:2*gamma2" (2 * p.gamma2)
  if g2x2 = 0 then throw (Fault.expect "encodings.rs:w1_encode:div0") else
  let qm ← arith .i32 m "encodings.rs:w1_encode:-1" (Int.tdiv (Q - 1) g2x2 - 1)
  let bl ← bitLen m qm
  dassert m "encodings.rs:w1_encode:debug_assert_eq(Alg 28: bad w1_tilde/config size)" (outLen == 32 * p.k * bl)
  dassertM m "encodings.rs:w1_encode:debug_assert(Alg 28: w1 out of range)" (do
    let bs ← w1.mapM (fun r => isInRange m r 0 qm); pure (bs.all id))
  let step := 32 * bl
  let cs ← (w1.take p.k).mapM (fun r => simpleBitPack m r qm step)
  if cs.flatten.length > outLen then throw (Fault.oob "encodings.rs:w1_encode:w1_tilde[..]") else
  pure (cs.flatten ++ List.replicate (outLen - cs.flatten.length) 0)

end Fips204.Impl
