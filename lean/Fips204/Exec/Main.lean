import Fips204.Gen.Kernels
def main : IO Unit := IO.println "stub"
