/-
  model — the line-protocol driver (DESIGN 4.2): reads the same operation lines as the Rust
  executor and answers from the Lean model (`Fips204.Impl`), instantiated with real SHAKE/SHA-2.
  Usage: model --mode checked|release   (operations on stdin, one result line each on stdout)
-/
import Fips204.Impl.Api
import Fips204.Exec.Keccak
import Fips204.Exec.Sha2
import Fips204.Exec.Oracles
import Fips204.Spec.MlDsa
open Fips204 Fips204.Gen Fips204.Impl

namespace Fips204.Exec


-- ---------------------------------------------------------------- parsing / printing
def hexVal (c : Char) : Nat :=
  if '0' ≤ c ∧ c ≤ '9' then c.toNat - '0'.toNat
  else if 'a' ≤ c ∧ c ≤ 'f' then c.toNat - 'a'.toNat + 10
  else if 'A' ≤ c ∧ c ≤ 'F' then c.toNat - 'A'.toNat + 10 else 0

def parseHex (s : String) : List Nat :=
  if s == "-" then [] else
  let rec go : List Char → List Nat → List Nat
    | a :: b :: rest, acc => go rest ((hexVal a * 16 + hexVal b) :: acc)
    | _, acc => acc.reverse
  go s.toList []

def hexDigit (n : Nat) : Char := if n < 10 then Char.ofNat (48 + n) else Char.ofNat (87 + n)

def toHex (b : List Nat) : String :=
  if b.isEmpty then "-" else
  String.ofList (b.foldr (fun x acc => hexDigit (x / 16 % 16) :: hexDigit (x % 16) :: acc) [])

def parseInt (s : String) : Int := s.toInt?.getD 0

def parsePoly (s : String) : Poly :=
  if s.startsWith "c" then List.replicate 256 (parseInt (s.drop 1).toString)
  else if s.startsWith "e" then
    match (s.drop 1).toString.splitOn ":" with
    | [i, v] => (List.replicate 256 (0 : Int)).set (i.toNat?.getD 0) (parseInt v)
    | _ => zeroPoly
  else (s.splitOn ",").map parseInt

def parsePolys (s : String) : List Poly := (s.splitOn "|").map parsePoly

def showPoly (p : Poly) : String := ",".intercalate (p.map toString)
def showPolys (v : List Poly) : String := "|".intercalate (v.map showPoly)

def parseScript (s : String) : List RngResp :=
  if s == "-" then [] else
  (s.splitOn "+").map (fun t =>
    if t.startsWith "ok:" then RngResp.ok (parseHex (t.drop 3).toString)
    else if t.startsWith "errafter:" then RngResp.errAfter (parseHex (t.drop 9).toString)
    else if t.startsWith "errafter@" then
      -- `errafter@<code>:<hex>`: the error code is the generator's business; the library must treat every error alike
      match (t.drop 9).toString.splitOn ":" with
      | [_, h] => RngResp.errAfter (parseHex h)
      | _ => RngResp.errBefore
    else RngResp.errBefore)

def showCalls (cs : List RngCall) : String :=
  if cs.isEmpty then "-" else
  ",".intercalate (cs.map (fun c => match c with
    | .tryFill n => s!"tryfill{n}" | .fill n => s!"fill{n}" | .nextU32 => "nextu32" | .nextU64 => "nextu64"))

def showFault (f : Fault) : String := s!"panic:{f.kind}:{f.site}"

def paramSet (s : String) : Option ParamSet :=
  if s == "44" then some ml_dsa_44 else if s == "65" then some ml_dsa_65 else if s == "87" then some ml_dsa_87 else none

-- ---------------------------------------------------------------- kernels and sweeps
def kernel (m : Mode) (name : String) (p1 p2 a : Int) : M (List Int) :=
  match name with
  | "partial_reduce32" => do pure [← partial_reduce32 m a]
  | "full_reduce32" => do pure [← full_reduce32 m a]
  | "center_mod" => do pure [← center_mod m a]
  | "mont_reduce" => do pure [← mont_reduce m a]
  | "partial_reduce64" => do pure [← partial_reduce64 m a]
  | "partial_reduce64s" => do pure [← to_mont_coeff m a]
  | "mont_reduce_hl" => do pure [← mont_reduce m (p1 * 4294967296 + a % 4294967296)]
  | "bit_length" => do pure [← bit_length m a]
  | "decompose" => do let (r1, r0) ← decompose m p1 a; pure [r1, r0]
  | "high_bits" => do pure [← high_bits m p1 a]
  | "low_bits" => do pure [← low_bits m p1 a]
  | "make_hint" => do let b ← make_hint m p1 p2 a; pure [if b then 1 else 0]
  | "use_hint" => do pure [← use_hint m p1 p2 a]
  | "power2round" => do
      let (r1, r0) ← power2round m [a :: List.replicate 255 0]
      pure [(r1.head!).head!, (r0.head!).head!]
  | "coeff3" => do
      let r ← coeff_from_three_bytes m (p1 != 0) (a % 256) (a / 256 % 256) (a / 65536 % 256)
      pure [r.getD (-1)]
  | "coeffhalf" => do
      let r ← coeff_from_half_byte m (p1 != 0) p2 a
      pure [r.getD (-99)]
  | _ => throw (Fault.expect "unknown kernel")

def fnvAdd (h : UInt64) (v : Int) : UInt64 :=
  (h ^^^ (UInt64.ofNat (v % 18446744073709551616).toNat)) * 0x100000001b3

def hex16 (h : UInt64) : String :=
  String.ofList ((List.range 16).map (fun i => hexDigit ((h.toNat / 16 ^ (15 - i)) % 16)))

partial def sweep (m : Mode) (name : String) (p1 p2 : Int) (x hi step : Int) (h : UInt64) (n : Nat) : String :=
  if x ≥ hi then s!"{hex16 h} {n}" else
  match kernel m name p1 p2 x with
  | .ok vs => sweep m name p1 p2 (x + step) hi step (vs.foldl fnvAdd h) (n + 1)
  | .error f => s!"{showFault f} at={x}"

-- ---------------------------------------------------------------- key sources
def skSrc (m : Mode) (O : Oracles) (p : ParamSet) (s : String) : M (Option PrivateKey) :=
  if s.startsWith "gen:" then do
    let (_, sk) ← keygenFromSeed m O p (parseHex (s.drop 4).toString); pure (some sk)
  else if s.startsWith "rt:" then do
    let (_, sk) ← keygenFromSeed m O p (parseHex (s.drop 3).toString)
    expandPrivate m p (← skIntoBytes m p sk)
  else expandPrivate m p (parseHex (s.drop 6).toString)

def pkSrc (m : Mode) (O : Oracles) (p : ParamSet) (s : String) : M (Option PublicKey) :=
  if s.startsWith "gen:" then do
    let (pk, _) ← keygenFromSeed m O p (parseHex (s.drop 4).toString); pure (some pk)
  else if s.startsWith "rt:" then do
    let (pk, _) ← keygenFromSeed m O p (parseHex (s.drop 3).toString)
    expandPublic m O p (← pkIntoBytes m p pk)
  else if s.startsWith "der:" then do
    match ← skSrc m O p (s.drop 4).toString with
    | none => pure none
    | some sk => do let pk ← privateToPublicKey m O p sk; pure (some pk)
  else expandPublic m O p (parseHex (s.drop 6).toString)

def pkDump (pk : PublicKey) : String := s!"{toHex pk.rho} {toHex pk.tr} {showPolys pk.t1d2}"
def skDump (sk : PrivateKey) : String :=
  s!"{toHex sk.rho} {toHex sk.key} {toHex sk.tr} {showPolys sk.s1} {showPolys sk.s2} {showPolys sk.t0}"

def phOf (s : String) : Ph := if s == "sha256" then .sha256 else if s == "sha512" then .sha512 else .shake128

def showSign (r : ApiRes SignOut × List RngCall) : String :=
  match r.1 with
  | .ok s => s!"ok {toHex s.sig} calls={showCalls r.2}"
  | .error .ctx => s!"err:ctx calls={showCalls r.2}"
  | .error .rng => s!"err:rng calls={showCalls r.2}"
  | .error .malformed => s!"err:other calls={showCalls r.2}"

def signFuel : Nat := 2000

/-- search aid for the corpora (not part of the model): the intermediate vectors of one signing attempt, flattened:
    `z` centred, `r = w - c s2 mod q`, `c t0` centred, `rr = w - c s2 + c t0 mod q` -/
def attemptProbe (m : Mode) (O : Oracles) (ctest : Bool) (p : ParamSet) (sk : PrivateKey) (aHat : List (List Poly))
    (mu rhoPP : List Nat) (kappa : Int) : M (List Int × List Int × List Int × List Int) := do
  let y ← expandMask m O p rhoPP kappa
  let w ← invNtt m (← matVecMul m aHat (← ntt m y))
  let w1 ← w.mapM (fun q => q.mapM (high_bits m p.gamma2))
  let w1t ← w1Encode m p w1 p.w1Len
  let cTilde := O.h (mu ++ w1t) p.lambdaDiv4
  let c ← sampleInBall m O ctest p.tau cTilde
  let chats ← ntt m [c]
  let chat ← idx "probe" chats 0
  let cs1 ← mulInv m "probe" chat sk.s1
  let cs2 ← mulInv m "probe" chat sk.s2
  let ct0 ← mulInv m "probe" chat sk.t0
  let z := (List.zipWith (fun a b => List.zipWith (fun x y => modpm Q (x + y)) a b) y cs1).flatten
  let r := (List.zipWith (fun a b => List.zipWith (fun x y => (x - y) % Q) a b) w cs2).flatten
  let c0 := ct0.flatten.map (fun x => modpm Q x)
  let rr := List.zipWith (fun x y => (x + y) % Q) r c0
  pure (z, r, c0, rr)

/-- the single pass of `dudect_keygen_sign_with_rng` (key generation and signing in CTEST mode) summarised, so that RNG outputs which
    put a secret coefficient on a rare value (a Decompose corner, an exact zero, a norm at a rejection bound) can be found and kept -/
def ctProbe (m : Mode) (O : Oracles) (p : ParamSet) (msg xi rnd : List Nat) : M String := do
  let (_, sk) ← keyGenInternal m O true p xi
  let aHat ← expandA m O true p sk.rho
  let mu := muOf O domPure_sign domHash_sign sk.tr msg [1] [2] [3] true
  let rhoPP := O.h (sk.key ++ rnd ++ mu) 64
  let (z, r, c0, rr) ← attemptProbe m O true p sk aHat mu rhoPP 0
  let g2 := p.gamma2
  let r0 := r.map (fun x => modpm (2 * g2) x)
  let mx := fun (l : List Int) => l.foldl (fun a b => if a < absI b then absI b else a) 0
  let cnt := fun (l : List Int) (f : Int → Bool) => (l.filter f).length
  let hsum := cnt (List.zipWith (fun a b => if (decide ((a - modpm (2 * g2) a) / (2 * g2) ≠ (b - modpm (2 * g2) b) / (2 * g2))) then (1 : Int) else 0) r rr) (fun x => x == 1)
  pure s!"znorm={mx z} zedge={cnt z (fun x => absI x == p.gamma1 - p.beta || absI x == p.gamma1 - p.beta - 1)} r0norm={mx r0} rcorner={cnt r (fun x => x == Q - g2)} r0edge={cnt r0 (fun x => x == g2)} r0betaedge={cnt r0 (fun x => absI x == g2 - p.beta || absI x == g2 - p.beta - 1)} ct0norm={mx c0} ct0zero={cnt c0 (fun x => x == 0)} ct0edge={cnt c0 (fun x => absI x == g2 || absI x == g2 - 1)} rrcorner={cnt rr (fun x => x == Q - g2)} rzero={cnt r (fun x => x == 0)} zzero={cnt z (fun x => x == 0)} hdiff={hsum}"

/-- the accepted attempt of an ordinary signature summarised: which Decompose bucket edges `(2k+1) gamma2` (and the corner `q - gamma2`)
    the vectors `w - c s2` and `w - c s2 + c t0` touch -/
def signProbe (m : Mode) (O : Oracles) (p : ParamSet) (sk : PrivateKey) (msg ctx rnd : List Nat) : M String := do
  let aHat ← expandA m O false p sk.rho
  let mu := muOf O domPure_sign domHash_sign sk.tr msg ctx [] [] false
  let rhoPP := O.h (sk.key ++ rnd ++ mu) 64
  let rec find : Nat → Int → M Int
    | 0, k => pure k
    | fuel + 1, k => do
      match ← signAttempt m O false p sk aHat mu rhoPP k with
      | some _ => pure k
      | none => find fuel (k + Int.ofNat p.l)
  let kappa ← find 400 0
  let (_, r, _, rr) ← attemptProbe m O false p sk aHat mu rhoPP kappa
  let g2 := p.gamma2
  let edges := fun (l : List Int) => (l.filter (fun x => x % (2 * g2) == g2)).map (fun x => (x - g2) / (2 * g2))
  let sh := fun (l : List Int) => ",".intercalate (l.map toString)
  pure s!"kappa={kappa} redges=[{sh (edges r)}] rredges=[{sh (edges rr)}]"


/-- the literal transcription of the standard (`Spec/*`), run directly: Table 1 by name, Algorithms 6, 7 (on `skDecode`), 8.
    `none` (finite XOF prefix exhausted) is reported as `Fault.fuel`, so `runLine` retries with a longer prefix. -/
def specOp (O : Oracles) (op : String) (a : Array String) : Option (M String) :=
  let arg := fun (i : Nat) => a[i]!
  let P? : Option Spec.Params := match arg 0 with
    | "44" => some Spec.mlDsa44 | "65" => some Spec.mlDsa65 | "87" => some Spec.mlDsa87 | _ => none
  let nG := 1680 * O.fuelScale
  match P? with
  | none => none
  | some P =>
    match op with
    | "spec_keygen" => some (
        match Spec.keyGenInternal P O.h O.g nG (1088 * O.fuelScale) (parseHex (arg 1)) with
        | some (pk, sk) => pure s!"{toHex pk} {toHex sk}"
        | none => throw (Fault.fuel "spec_keygen"))
    | "spec_sign" => some (
        let d := Spec.skDecode (Spec.bitlen (2 * P.eta)) P.eta P.k P.l (parseHex (arg 1))
        if !(Spec.allInRange P.eta P.eta d.2.2.2.1 && Spec.allInRange P.eta P.eta d.2.2.2.2.1) then pure "err:sk" else
        match Spec.signInternal P O.h O.g nG (8 + 1360 * O.fuelScale) (65535 / P.l) d.1 d.2.1 d.2.2.1 d.2.2.2.1 d.2.2.2.2.1 d.2.2.2.2.2
            (parseHex (arg 2)) (parseHex (arg 3)) with
        | some sig => pure (toHex sig)
        | none => throw (Fault.fuel "spec_sign"))
    | "spec_verify" => some (
        match Spec.verifyInternal P O.h O.g nG (8 + 1360 * O.fuelScale) (parseHex (arg 1)) (parseHex (arg 2)) (parseHex (arg 3)) with
        | some b => pure (toString b)
        | none => throw (Fault.fuel "spec_verify"))
    | "spec_api_verify" => some (
        -- Algorithms 3 / 5: <set> <mode> <pk> <M> <ctx> <sigma>
        let r := match arg 1 with
          | "pure" => Spec.verify P O.h O.g nG (8 + 1360 * O.fuelScale) (parseHex (arg 2)) (parseHex (arg 3)) (parseHex (arg 5)) (parseHex (arg 4))
          | md => Spec.hashVerify P O.h O.g O.sha256 O.sha512 nG (8 + 1360 * O.fuelScale) (parseHex (arg 2)) (parseHex (arg 3)) (parseHex (arg 5)) (parseHex (arg 4))
                    (if md == "sha256" then .sha256 else if md == "sha512" then .sha512 else .shake128)
        match r with
        | some b => pure (toString b)
        | none => throw (Fault.fuel "spec_api_verify"))
    | "spec_api_sign" => some (
        -- Algorithms 2 / 4 with the generator's answer: <set> <mode> <sk> <M> <ctx> <rnd | null>
        let rbg := if arg 5 == "null" then none else some (parseHex (arg 5))
        let att := 65535 / P.l
        let r := match arg 1 with
          | "pure" => Spec.sign P O.h O.g nG (8 + 1360 * O.fuelScale) att (parseHex (arg 2)) (parseHex (arg 3)) (parseHex (arg 4)) rbg
          | md => Spec.hashSign P O.h O.g O.sha256 O.sha512 nG (8 + 1360 * O.fuelScale) att (parseHex (arg 2)) (parseHex (arg 3)) (parseHex (arg 4))
                    (if md == "sha256" then .sha256 else if md == "sha512" then .sha512 else .shake128) rbg
        match r with
        | some (some sig) => pure s!"ok {toHex sig}"
        | some none => pure "bottom"
        | none => throw (Fault.fuel "spec_api_sign"))
    | _ => none

/-- per-parameter-set operations -/
def setOp (m : Mode) (O : Oracles) (op : String) (p : ParamSet) (a : Array String) : M String :=
  let arg := fun (i : Nat) => a[i]!
  match op with
  | "keygen" => do
      let (pk, sk) ← keygenFromSeed m O p (parseHex (arg 0))
      pure s!"{toHex (← pkIntoBytes m p pk)} {toHex (← skIntoBytes m p sk)}"
  | "keygen_s" => do
      let (pk, sk) ← keygenFromSeed m O p (parseHex (arg 0))
      pure s!"{pkDump pk} {skDump sk}"
  | "keygen_rng" => do
      let (r, calls) ← keygenWithRng m O p (parseScript (arg 0))
      match r with
      | .ok (pk, sk) => pure s!"ok {toHex (← pkIntoBytes m p pk)} {toHex (← skIntoBytes m p sk)} calls={showCalls calls}"
      | .error _ => pure s!"err:rng calls={showCalls calls}"
  | "sign" => do
      match ← skSrc m O p (arg 1) with
      | none => pure "err:sk"
      | some sk =>
        let msg := parseHex (arg 2); let ctx := parseHex (arg 3); let script := parseScript (arg 4)
        if arg 0 == "pure" then pure (showSign (← sign m O p signFuel sk msg ctx script))
        else if arg 0 == "internal" then do
          let rnd := match script with | RngResp.ok b :: _ => (List.range 32).map (fun i => b[i % b.length]!) | _ => List.replicate 32 0
          pure (showSign (← internalSign m O p signFuel sk msg ctx rnd, []))
        else pure (showSign (← hashSign m O p signFuel sk msg ctx (phOf (arg 0)) script))
  | "verify" => do
      match ← pkSrc m O p (arg 1) with
      | none => pure "err:pk"
      | some pk =>
        let msg := parseHex (arg 2); let ctx := parseHex (arg 3); let sig := parseHex (arg 4)
        if sig.length ≠ p.sigLen then pure "badlen" else
        let r ← if arg 0 == "pure" then verify m O p pk msg sig ctx
          else if arg 0 == "internal" then internalVerify m O p pk msg sig ctx
          else hashVerify m O p pk msg sig ctx (phOf (arg 0))
        pure (toString r)
  | "sign_probe" => do
      match ← skSrc m O p (arg 0) with
      | none => pure "err"
      | some sk => signProbe m O p sk (parseHex (arg 1)) (parseHex (arg 2)) (parseHex (arg 3))
  | "ct_probe" => do
      let r := parseHex (arg 1)
      ctProbe m O p (parseHex (arg 0)) (r.take 32) (r.drop 32)
  | "dudect" => do pure (showSign (← dudectKeygenSign m O p signFuel (parseHex (arg 0)) (parseScript (arg 1))))
  | "sk_from" => do match ← skSrc m O p (arg 0) with | some sk => pure s!"ok {skDump sk}" | none => pure "err"
  | "pk_from" => do match ← pkSrc m O p (arg 0) with | some pk => pure s!"ok {pkDump pk}" | none => pure "err"
  | "sk_rt" => do match ← skSrc m O p (arg 0) with | some sk => pure s!"ok {toHex (← skIntoBytes m p sk)}" | none => pure "err"
  | "pk_rt" => do match ← pkSrc m O p (arg 0) with | some pk => pure s!"ok {toHex (← pkIntoBytes m p pk)}" | none => pure "err"
  | "derive" => do
      match ← skSrc m O p (arg 0) with
      | none => pure "err"
      | some sk => do
        let pk ← privateToPublicKey m O p sk
        pure s!"ok {pkDump pk} bytes={toHex (← pkIntoBytes m p pk)}"
  | "sk_into_f" => do
      let sk : PrivateKey := ⟨parseHex (arg 0), parseHex (arg 1), parseHex (arg 2), parsePolys (arg 3), parsePolys (arg 4), parsePolys (arg 5)⟩
      pure (toHex (← skIntoBytes m p sk))
  | "pk_into_f" => do
      let pk : PublicKey := ⟨parseHex (arg 0), parseHex (arg 1), parsePolys (arg 2)⟩
      pure (toHex (← pkIntoBytes m p pk))
  | "verify_f" => do
      let pk : PublicKey := ⟨parseHex (arg 1), parseHex (arg 2), parsePolys (arg 3)⟩
      let msg := parseHex (arg 4); let ctx := parseHex (arg 5); let sig := parseHex (arg 6)
      let r ← if arg 0 == "pure" then verify m O p pk msg sig ctx
        else if arg 0 == "internal" then internalVerify m O p pk msg sig ctx
        else hashVerify m O p pk msg sig ctx (phOf (arg 0))
      pure (toString r)
  | "pk_encode" => do pure (toHex (← pkEncode m p (parseHex (arg 0)) (parsePolys (arg 1))))
  | "pk_decode" => do
      match ← pkDecode m p (parseHex (arg 0)) with
      | some d => pure s!"ok {toHex d.rho} {showPolys d.t1}" | none => pure "err"
  | "sk_encode" => do
      pure (toHex (← skEncode m p ⟨parseHex (arg 0), parseHex (arg 1), parseHex (arg 2), parsePolys (arg 3), parsePolys (arg 4), parsePolys (arg 5)⟩))
  | "sk_decode" => do
      match ← skDecode m p (parseHex (arg 0)) with
      | some s => pure s!"ok {toHex s.rho} {toHex s.key} {toHex s.tr} {showPolys s.s1} {showPolys s.s2} {showPolys s.t0}"
      | none => pure "err"
  | "sig_encode" => do
      pure (toHex (← sigEncode m (arg 0 == "1") p (parseHex (arg 1)) (parsePolys (arg 2)) (parsePolys (arg 3))))
  | "sig_decode" => do
      match ← sigDecode m p (parseHex (arg 0)) with
      | some (c, z, h) => pure s!"ok {toHex c} {showPolys z} {showPolys h}" | none => pure "err"
  | "w1_encode" => do pure (toHex (← w1Encode m p (parsePolys (arg 0)) p.w1Len))
  | "expand_a" => do
      let a ← expandA m O (arg 0 == "1") p (parseHex (arg 1))
      pure ("|".intercalate (a.map showPolys))
  | "expand_s" => do
      let (s1, s2) ← expandS m O (arg 0 == "1") p (parseHex (arg 1))
      pure s!"{showPolys s1} {showPolys s2}"
  | "expand_mask" => do pure (showPolys (← expandMask m O p (parseHex (arg 0)) (parseInt (arg 1))))
  | "mat_vec_mul" => do
      let a := ((arg 0).splitOn "/").map parsePolys
      pure (showPolys (← matVecMul m a (parsePolys (arg 1))))
  | _ => throw (Fault.expect s!"unknown op {op}")

def runOp (m : Mode) (O : Oracles) (t : Array String) : M String :=
  let op := t[0]!
  let a := t.extract 1 t.size
  let arg := fun (i : Nat) => a[i]!
  let int := fun (i : Nat) => parseInt (a[i]!)
  if op.startsWith "k." then do
    let vs ← kernel m (op.drop 2).toString (int 0) (int 1) (int 2)
    pure (" ".intercalate (vs.map toString))
  else match op with
  | "sweep" => pure (sweep m (arg 0) (int 1) (int 2) (int 3) (int 4) (int 5) 0xcbf29ce484222325 0)
  | "zeta" => do pure (showPoly (← genZetaTable m))
  | "consts" => pure s!"{Q} {ZETA} {D}"
  | "ntt" => do pure (showPolys (← ntt m (parsePolys (arg 1))))
  | "inv_ntt" => do pure (showPolys (← invNtt m (parsePolys (arg 1))))
  | "legacy.inv_ntt" => do pure (showPolys (← (parsePolys (arg 1)).mapM (Legacy.invNttPoly m)))
  | "to_mont" => do pure (showPolys (← toMont m (parsePolys (arg 1))))
  | "infinity_norm" => do pure (toString (← infinityNorm m (parsePolys (arg 1))))
  | "is_in_range" => do pure (if (← isInRange m (parsePoly (arg 0)) (int 1) (int 2)) then "1" else "0")
  | "add_vector_ntt" => do pure (showPolys (← addVectorNtt m (parsePolys (arg 0)) (parsePolys (arg 1))))
  | "matvec1" => do pure (showPolys (← matVecMul m [parsePolys (arg 1)] (parsePolys (arg 2))))
  | "matvec1_invntt" => do pure (showPolys (← invNtt m (← matVecMul m [parsePolys (arg 1)] (parsePolys (arg 2)))))
  | "legacy.matvec1_invntt" => do
      pure (showPolys (← (← matVecMul m [parsePolys (arg 1)] (parsePolys (arg 2))).mapM (Legacy.invNttPoly m)))
  | "bit_pack" => do
      let bl ← bitLen m (int 0 + int 1)
      pure (toHex (← bitPack m (parsePoly (arg 2)) (int 0) (int 1) (32 * bl)))
  | "simple_bit_pack" => do
      let bl ← bitLen m (int 0)
      pure (toHex (← simpleBitPack m (parsePoly (arg 1)) (int 0) (32 * bl)))
  | "bit_unpack" => do
      match ← bitUnpack m (parseHex (arg 2)) (int 0) (int 1) with | some p => pure s!"ok {showPoly p}" | none => pure "err"
  | "simple_bit_unpack" => do
      match ← simpleBitUnpack m (parseHex (arg 1)) (int 0) with | some p => pure s!"ok {showPoly p}" | none => pure "err"
  | "hint_pack" => do
      let k := (int 1).toNat; let om := int 2
      pure (toHex (← hintBitPack m (arg 0 == "1") om (parsePolys (arg 3)) (om.toNat + k)))
  | "hint_unpack" => do
      match ← hintBitUnpack m (int 0).toNat (int 1) (parseHex (arg 2)) with
      | some h => pure s!"ok {showPolys h}" | none => pure "err"
  | "sample_in_ball" => do pure (showPoly (← sampleInBall m O (arg 0 == "1") (int 1) (parseHex (arg 2))))
  | "rej_ntt_poly" => do pure (showPoly (← rejNttPoly m O (arg 0 == "1") (parseHex (arg 1))))
  | "rej_bounded_poly" => do pure (showPoly (← rejBoundedPoly m O (arg 0 == "1") (int 1) (parseHex (arg 2))))
  | "hash_message" => do
      let (oid, phm) := hashMessage O (parseHex (arg 1)) (phOf (arg 0))
      pure s!"{toHex oid} {toHex phm}"
  | _ =>
    match specOp O op a with
    | some r => r
    | none =>
    match paramSet (arg 0) with
    | some p => setOp m O op p (a.extract 1 a.size)
    | none => throw (Fault.expect s!"unknown op {op}")

def runLine (m : Mode) (line : String) : String :=
  let t := ((line.splitOn " ").filter (fun s => !s.isEmpty)).toArray
  if t.isEmpty then "" else
  match runOp m (realOracles 1) t with
  | .ok s => s
  | .error (.fuel _) =>
    -- the model ran out of oracle stream: retry with a longer prefix (the crate squeezes without bound)
    match runOp m (realOracles 16) t with
    | .ok s => s
    | .error f => showFault f
  | .error f => showFault f

end Fips204.Exec

partial def loop (m : Fips204.Mode) (h : IO.FS.Stream) (out : IO.FS.Stream) : IO Unit := do
  let line ← h.getLine
  if line.isEmpty then return ()
  out.putStrLn (Fips204.Exec.runLine m line.trimAscii.toString)
  loop m h out

def main (args : List String) : IO Unit := do
  let m := if args.contains "release" then Fips204.Mode.release else Fips204.Mode.checked
  let out ← IO.getStdout
  loop m (← IO.getStdin) out
