/-
  The hash oracles with which the model is executed: the Lean SHAKE128/256 and SHA-256/512 of `Exec/Keccak`, `Exec/Sha2`.
  (`Lemmas/OracleReal` proves that they meet `OracleOk` and `OraclePrefix`.)
-/
import Fips204.Impl.Sample
import Fips204.Exec.Keccak
import Fips204.Exec.Sha2
open Fips204 Fips204.Gen Fips204.Impl

namespace Fips204.Exec

def realOracles (scale : Nat) : Oracles :=
  { h := shake256, g := shake128, sha256 := sha256, sha512 := sha512, fuelScale := scale }

end Fips204.Exec
