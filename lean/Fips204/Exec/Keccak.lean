/-
  Executable SHAKE128/SHAKE256 (FIPS 202) for the model driver.  Used only to *run* the model;
  no theorem evaluates a hash (hash functions are oracle parameters in every theorem).
  Validated against the crate's `sha3` by the correspondence run itself.
-/
namespace Fips204.Exec

def rc : Array UInt64 := #[
  0x0000000000000001, 0x0000000000008082, 0x800000000000808A, 0x8000000080008000,
  0x000000000000808B, 0x0000000080000001, 0x8000000080008081, 0x8000000000008009,
  0x000000000000008A, 0x0000000000000088, 0x0000000080008009, 0x000000008000000A,
  0x000000008000808B, 0x800000000000008B, 0x8000000000008089, 0x8000000000008003,
  0x8000000000008002, 0x8000000000000080, 0x000000000000800A, 0x800000008000000A,
  0x8000000080008081, 0x8000000000008080, 0x0000000080000001, 0x8000000080008008]

def rotc : Array UInt64 := #[1, 3, 6, 10, 15, 21, 28, 36, 45, 55, 2, 14, 27, 41, 56, 8, 25, 43, 62, 18, 39, 61, 20, 44]
def piln : Array Nat := #[10, 7, 11, 17, 18, 3, 5, 16, 8, 21, 24, 4, 15, 23, 19, 13, 12, 2, 20, 14, 22, 9, 6, 1]

@[inline] def rotl (x : UInt64) (n : UInt64) : UInt64 := (x <<< n) ||| (x >>> (64 - n))

def keccakF (st0 : Array UInt64) : Array UInt64 := Id.run do
  let mut st := st0
  for round in [0:24] do
    -- theta
    let mut bc : Array UInt64 := Array.replicate 5 0
    for i in [0:5] do
      bc := bc.set! i (st[i]! ^^^ st[i+5]! ^^^ st[i+10]! ^^^ st[i+15]! ^^^ st[i+20]!)
    for i in [0:5] do
      let t := bc[(i + 4) % 5]! ^^^ rotl bc[(i + 1) % 5]! 1
      for j in [0:5] do
        st := st.set! (j * 5 + i) (st[j * 5 + i]! ^^^ t)
    -- rho pi
    let mut t := st[1]!
    for i in [0:24] do
      let j := piln[i]!
      let b := st[j]!
      st := st.set! j (rotl t rotc[i]!)
      t := b
    -- chi
    for j in [0:5] do
      let b0 := st[j*5]!; let b1 := st[j*5+1]!; let b2 := st[j*5+2]!; let b3 := st[j*5+3]!; let b4 := st[j*5+4]!
      st := st.set! (j*5)   (b0 ^^^ ((~~~ b1) &&& b2))
      st := st.set! (j*5+1) (b1 ^^^ ((~~~ b2) &&& b3))
      st := st.set! (j*5+2) (b2 ^^^ ((~~~ b3) &&& b4))
      st := st.set! (j*5+3) (b3 ^^^ ((~~~ b4) &&& b0))
      st := st.set! (j*5+4) (b4 ^^^ ((~~~ b0) &&& b1))
    -- iota
    st := st.set! 0 (st[0]! ^^^ rc[round]!)
  return st

/-- xor byte `b` into position `pos` of the lane array -/
@[inline] def xorByte (st : Array UInt64) (pos : Nat) (b : UInt8) : Array UInt64 :=
  let lane := pos / 8
  let sh : UInt64 := (UInt64.ofNat (pos % 8)) * 8
  st.set! lane (st[lane]! ^^^ (b.toUInt64 <<< sh))

@[inline] def getByte (st : Array UInt64) (pos : Nat) : UInt8 :=
  let lane := pos / 8
  let sh : UInt64 := (UInt64.ofNat (pos % 8)) * 8
  (st[lane]! >>> sh).toUInt8

/-- absorb the input, pad (SHAKE domain bits `1111` then `pad10*1`) and permute: the state from which output is squeezed -/
def absorb (rate : Nat) (input : ByteArray) : Array UInt64 := Id.run do
  let mut st : Array UInt64 := Array.replicate 25 0
  let mut pos := 0
  for b in input do
    st := xorByte st pos b
    pos := pos + 1
    if pos == rate then
      st := keccakF st
      pos := 0
  st := xorByte st pos 0x1F
  st := xorByte st (rate - 1) 0x80
  st := keccakF st
  return st

/-- squeeze `n` bytes from state `st`, `opos` bytes of the current block already used (structural recursion on `n`, so that
    "fewer bytes = a prefix" is a two-line induction: `Lemmas/OracleReal`) -/
def squeezeL (rate : Nat) : Nat → Array UInt64 → Nat → List UInt8
  | 0, _, _ => []
  | n + 1, st, opos =>
    if opos == rate then
      let st' := keccakF st
      getByte st' 0 :: squeezeL rate n st' 1
    else getByte st opos :: squeezeL rate n st (opos + 1)

/-- SHAKE with the given rate (168 for SHAKE128, 136 for SHAKE256): first `n` output bytes -/
def shake (rate : Nat) (input : ByteArray) (n : Nat) : ByteArray :=
  ByteArray.mk (squeezeL rate n (absorb rate input) 0).toArray

def toBA (l : List Nat) : ByteArray := ByteArray.mk (l.toArray.map (fun x => x.toUInt8))
def ofBA (b : ByteArray) : List Nat := b.data.toList.map (fun x => x.toNat)

def shake256 (input : List Nat) (n : Nat) : List Nat := ofBA (shake 136 (toBA input) n)
def shake128 (input : List Nat) (n : Nat) : List Nat := ofBA (shake 168 (toBA input) n)

end Fips204.Exec
