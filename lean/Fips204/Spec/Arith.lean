import Fips204.Basic
import Fips204.Gen.Consts
/-!
  FIPS 204 auxiliary functions on single coefficients, as the standard writes them
  (Algorithms 14, 15, 35-40, 49 and the `mod±` of Section 2.3) over exact integers.
-/
namespace Fips204.Spec
open Fips204 Fips204.Gen

/-- Algorithm 35 -/
def power2round (r : Int) : Int × Int :=
  let rp := r % Q
  let r0 := modpm 8192 rp          -- 2^d, d = 13
  ((rp - r0) / 8192, r0)

/-- Algorithm 36 -/
def decompose (g2 : Int) (r : Int) : Int × Int :=
  let rp := r % Q
  let r0 := modpm (2 * g2) rp
  if rp - r0 = Q - 1 then (0, r0 - 1) else ((rp - r0) / (2 * g2), r0)

/-- Algorithm 37 -/
def highBits (g2 r : Int) : Int := (decompose g2 r).1
/-- Algorithm 38 -/
def lowBits (g2 r : Int) : Int := (decompose g2 r).2

/-- Algorithm 39 -/
def makeHint (g2 z r : Int) : Bool := decide (highBits g2 r ≠ highBits g2 (r + z))

/-- Algorithm 40 -/
def useHint (g2 h r : Int) : Int :=
  let m := (Q - 1) / (2 * g2)
  let (r1, r0) := decompose g2 r
  if h = 1 ∧ r0 > 0 then (r1 + 1) % m
  else if h = 1 ∧ r0 ≤ 0 then (r1 - 1) % m
  else r1

/-- Algorithm 14 -/
def coeffFromThreeBytes (b0 b1 b2 : Int) : Option Int :=
  let b2' := if b2 > 127 then b2 - 128 else b2
  let z := 65536 * b2' + 256 * b1 + b0
  if z < Q then some z else none

/-- Algorithm 15 -/
def coeffFromHalfByte (eta b : Int) : Option Int :=
  if eta = 2 ∧ b < 15 then some (2 - (b % 5))
  else if eta = 4 ∧ b < 9 then some (4 - b)
  else none

end Fips204.Spec
