import Fips204.Impl.Sample
/-!
  FIPS 204 Algorithms 2-5: construction of the formatted message M' and the pre-hash / OID table,
  as the standard writes them (the OIDs 2.16.840.1.101.3.4.2.{1,3,11} are read from the standard and
  are part of the trusted base: the repository has no vectors for the external interface).
-/
namespace Fips204.Spec
open Fips204 Fips204.Impl

def oidSha256 : List Nat := [0x06, 0x09, 0x60, 0x86, 0x48, 0x01, 0x65, 0x03, 0x04, 0x02, 0x01]
def oidSha512 : List Nat := [0x06, 0x09, 0x60, 0x86, 0x48, 0x01, 0x65, 0x03, 0x04, 0x02, 0x03]
def oidShake128 : List Nat := [0x06, 0x09, 0x60, 0x86, 0x48, 0x01, 0x65, 0x03, 0x04, 0x02, 0x0B]

/-- Algorithm 2 line 10 / Algorithm 3 line 5: `IntegerToBytes(0,1) ‖ IntegerToBytes(|ctx|,1) ‖ ctx ‖ M` -/
def fmtPure (ctx M : List Nat) : List Nat := [0] ++ [ctx.length] ++ ctx ++ M

/-- Algorithm 4 line 23 / Algorithm 5 line 18: `IntegerToBytes(1,1) ‖ IntegerToBytes(|ctx|,1) ‖ ctx ‖ OID ‖ PH_M` -/
def fmtHash (ctx oid phm : List Nat) : List Nat := [1] ++ [ctx.length] ++ ctx ++ oid ++ phm

/-- Algorithm 4 lines 10-22: OID and pre-hash per function (SHA-256: 32 bytes, SHA-512: 64, SHAKE128: 256 bits) -/
def prehash (O : Oracles) (M : List Nat) : Ph → List Nat × List Nat
  | .sha256 => (oidSha256, O.sha256 M)
  | .sha512 => (oidSha512, O.sha512 M)
  | .shake128 => (oidShake128, O.g M 32)

/-- what the theorems assume of the oracles: digest lengths -/
structure WF (O : Oracles) : Prop where
  sha256_len : ∀ M, (O.sha256 M).length = 32
  sha512_len : ∀ M, (O.sha512 M).length = 64
  g_len : ∀ M n, (O.g M n).length = n
  h_len : ∀ M n, (O.h M n).length = n

end Fips204.Spec
