import Fips204.Spec.Arith
import Fips204.Spec.Codec
import Fips204.Spec.Sample
import Fips204.Spec.Ntt
/-!
  FIPS 204 Table 1 (parameter sets) and Algorithm 8 (`ML-DSA.Verify_internal`) as the standard writes it, assembled from the
  transcriptions of Algorithms 9-13, 16-21, 23, 27-30, 32, 35-42 in `Spec/*`.  Nothing here mentions the crate.
  `H` and `G` are SHAKE256 and SHAKE128 as functions "input, number of output bytes"; the two rejection samplers read a finite
  prefix of the XOF output (`nG`, `nH` bytes): `none` means that prefix was too short - the standard's loops are unbounded.
-/
namespace Fips204.Spec
open Fips204 Fips204.Gen

/-- FIPS 204 Table 1 -/
structure Params where
  tau : Nat
  lambda : Nat
  gamma1 : Int
  gamma2 : Int
  k : Nat
  l : Nat
  eta : Int
  beta : Int
  omega : Nat
  deriving DecidableEq, Repr

def mlDsa44 : Params := { tau := 39, lambda := 128, gamma1 := 2 ^ 17, gamma2 := (8380417 - 1) / 88, k := 4, l := 4, eta := 2, beta := 78, omega := 80 }
def mlDsa65 : Params := { tau := 49, lambda := 192, gamma1 := 2 ^ 19, gamma2 := (8380417 - 1) / 32, k := 6, l := 5, eta := 4, beta := 196, omega := 55 }
def mlDsa87 : Params := { tau := 60, lambda := 256, gamma1 := 2 ^ 19, gamma2 := (8380417 - 1) / 32, k := 8, l := 7, eta := 2, beta := 120, omega := 75 }

/-- `bitlen x` -/
def bitlen (x : Int) : Nat := Nat.log2 x.toNat + 1

/-- Algorithm 8 `ML-DSA.Verify_internal(pk, M', σ)` -/
def verifyInternal (P : Params) (H G : List Nat → Nat → List Nat) (nG nH : Nat) (pk Mp sigma : List Nat) : Option Bool :=
  -- 1: (ρ, t1) ← pkDecode(pk)
  let (rho, t1) := pkDecode P.k pk
  -- 2: (c̃, z, h) ← sigDecode(σ)
  let (cTilde, z, h) := sigDecode (P.lambda / 4) P.l P.k P.omega (1 + bitlen (P.gamma1 - 1)) P.gamma1 sigma
  -- 3-4: if h = ⊥ then return false
  match h with
  | none => some false
  | some h =>
    -- 5: Â ← ExpandA(ρ)
    match expandA (fun x => G x nG) P.k P.l rho with
    | none => none
    | some aHat =>
      -- 6-7: tr ← H(pk, 64); μ ← H(tr ‖ M', 64)
      let tr := H pk 64
      let mu := H (tr ++ Mp) 64
      -- 8: c ← SampleInBall(c̃)
      match sampleInBall P.tau (H cTilde nH) with
      | none => none
      | some c =>
        -- 9: w'_Approx ← NTT⁻¹(Â ∘ NTT(z) − NTT(c) ∘ NTT(t1 · 2^d))
        let w := wApprox aHat z c t1
        -- 10: w1' ← UseHint(h, w'_Approx)
        let w1 := List.zipWith (fun hp wp => List.zipWith (fun hh r => useHint P.gamma2 hh r) hp wp) h w
        -- 12: c̃' ← H(μ ‖ w1Encode(w1'), λ/4)
        let cTildeP := H (mu ++ w1Encode (bitlen ((8380417 - 1) / (2 * P.gamma2) - 1)) w1) (P.lambda / 4)
        -- 13: return [[ ‖z‖∞ < γ1 − β ]] and [[ c̃ = c̃' ]]
        some (decide (infNorm z < P.gamma1 - P.beta) && decide (cTilde = cTildeP))

/-- the formatted message `M'` the three entry paths hand to Algorithm 8 (Algorithms 3 and 5; the deprecated internal interface passes `M` itself) -/
def formatted (nist : Bool) (msg ctx oid phm : List Nat) : List Nat :=
  if nist then msg
  else if oid.isEmpty then [0] ++ [ctx.length % 256] ++ ctx ++ msg
  else [1] ++ [ctx.length % 256] ++ ctx ++ oid ++ phm


/-- Algorithm 6 `ML-DSA.KeyGen_internal(ξ)`: returns `(pk, sk)` -/
def keyGenInternal (P : Params) (H G : List Nat → Nat → List Nat) (nG nH : Nat) (xi : List Nat) : Option (List Nat × List Nat) :=
  -- 1: (ρ, ρ', K) ∈ B^32 × B^64 × B^32 ← H(ξ ‖ IntegerToBytes(k, 1) ‖ IntegerToBytes(ℓ, 1), 128)
  let hh := H (xi ++ [P.k % 256, P.l % 256]) 128
  let rho := hh.take 32
  let rhoPrime := (hh.drop 32).take 64
  let key := (hh.drop 96).take 32
  -- 3: Â ← ExpandA(ρ)
  match expandA (fun x => G x nG) P.k P.l rho with
  | none => none
  | some aHat =>
    -- 4: (s1, s2) ← ExpandS(ρ')
    match expandS (fun x => H x nH) P.eta P.k P.l rhoPrime with
    | none => none
    | some (s1, s2) =>
      -- 5: t ← NTT⁻¹(Â ∘ NTT(s1)) + s2
      let s1hat := s1.map ntt
      let t := List.zipWith (fun row s2r => addQ (invNtt (rowTimes row s1hat)) s2r) aHat s2
      -- 6: (t1, t0) ← Power2Round(t)
      let t1 := t.map (fun q => q.map (fun x => (power2round x).1))
      let t0 := t.map (fun q => q.map (fun x => (power2round x).2))
      -- 8-10: pk ← pkEncode(ρ, t1); tr ← H(pk, 64); sk ← skEncode(ρ, K, tr, s1, s2, t0)
      let pk := pkEncode rho t1
      let tr := H pk 64
      some (pk, skEncode (bitlen (2 * P.eta)) P.eta rho key tr s1 s2 t0)


/-- number of coefficients equal to 1 in a hint vector -/
def countOnes (h : List (List Int)) : Nat := (h.map (fun q => (q.filter (fun e => e = 1)).length)).foldl (· + ·) 0

/-- coefficientwise ternary map over vectors of polynomials -/
def zipWith3V (g : Int → Int → Int → Int) (a b c : List (List Int)) : List (List Int) :=
  List.zipWith (fun ap (bc : List Int × List Int) => List.zipWith (fun e (au : Int × Int) => g e au.1 au.2) ap (List.zip bc.1 bc.2)) a (List.zip b c)

/-- Algorithm 7 lines 11-29 for one value of κ.  Outer `none`: the XOF prefix handed to `SampleInBall` ran out; inner `none`: `(z, h) = ⊥`. -/
def signAttempt (P : Params) (H : List Nat → Nat → List Nat) (nH : Nat) (s1 s2 t0 : List (List Int)) (aHat : List (List (List Int)))
    (mu rhoPP : List Nat) (kappa : Nat) : Option (Option (List Nat × List (List Int) × List (List Int))) :=
  -- 11: y ← ExpandMask(ρ'', κ)
  let y := expandMask H (1 + bitlen (P.gamma1 - 1)) P.gamma1 P.l rhoPP kappa
  -- 12: w ← NTT⁻¹(Â ∘ NTT(y));  13: w1 ← HighBits(w)
  let w := aHat.map (fun row => invNtt (rowTimes row (y.map ntt)))
  let w1 := w.map (fun q => q.map (highBits P.gamma2))
  -- 15: c̃ ← H(μ ‖ w1Encode(w1), λ/4);  16: c ← SampleInBall(c̃)
  let cTilde := H (mu ++ w1Encode (bitlen ((8380417 - 1) / (2 * P.gamma2) - 1)) w1) (P.lambda / 4)
  match sampleInBall P.tau (H cTilde nH) with
  | none => none
  | some c =>
    -- 17-19: ĉ ← NTT(c); ⟨⟨cs1⟩⟩ ← NTT⁻¹(ĉ ∘ ŝ1); ⟨⟨cs2⟩⟩ ← NTT⁻¹(ĉ ∘ ŝ2)
    let cs1 := s1.map (fun s => invNtt (mulQ (ntt c) (ntt s)))
    let cs2 := s2.map (fun s => invNtt (mulQ (ntt c) (ntt s)))
    -- 20: z ← y + ⟨⟨cs1⟩⟩ (held mod± q);  21: r0 ← LowBits(w − ⟨⟨cs2⟩⟩)
    let z := List.zipWith (fun yp cp => List.zipWith (fun a b => modpm Q (a + b)) yp cp) y cs1
    let r0 := List.zipWith (fun wp cp => List.zipWith (fun a b => lowBits P.gamma2 (a - b)) wp cp) w cs2
    -- 23: if ‖z‖∞ ≥ γ1 − β or ‖r0‖∞ ≥ γ2 − β then (z, h) ← ⊥
    if decide (infNorm z ≥ P.gamma1 - P.beta) || decide (infNorm r0 ≥ P.gamma2 - P.beta) then some none else
    -- 25-26: ⟨⟨ct0⟩⟩ ← NTT⁻¹(ĉ ∘ t̂0); h ← MakeHint(−⟨⟨ct0⟩⟩, w − ⟨⟨cs2⟩⟩ + ⟨⟨ct0⟩⟩)
    let ct0 := t0.map (fun s => invNtt (mulQ (ntt c) (ntt s)))
    let h := zipWith3V (fun a b c0 => if makeHint P.gamma2 (-c0) (a - b + c0) then (1 : Int) else 0) w cs2 ct0
    -- 28: if ‖⟨⟨ct0⟩⟩‖∞ ≥ γ2 or the number of 1's in h is greater than ω then (z, h) ← ⊥
    if decide (infNorm ct0 ≥ P.gamma2) || decide (((countOnes h : Nat) : Int) > (P.omega : Int)) then some none else
    some (some (cTilde, z, h))

/-- Algorithm 7 lines 10-32: `while (z, h) = ⊥ .. κ ← κ + ℓ` (`n` bounds the number of attempts) -/
def signLoop (P : Params) (H : List Nat → Nat → List Nat) (nH : Nat) (s1 s2 t0 : List (List Int)) (aHat : List (List (List Int)))
    (mu rhoPP : List Nat) : Nat → Nat → Option (List Nat × List (List Int) × List (List Int))
  | 0, _ => none
  | n + 1, kappa =>
    match signAttempt P H nH s1 s2 t0 aHat mu rhoPP kappa with
    | none => none
    | some (some r) => some r
    | some none => signLoop P H nH s1 s2 t0 aHat mu rhoPP n (kappa + P.l)

/-- Algorithm 7 `ML-DSA.Sign_internal(sk, M', rnd)` on the decoded private key `(ρ, K, tr, s1, s2, t0)` -/
def signInternal (P : Params) (H G : List Nat → Nat → List Nat) (nG nH : Nat) (attempts : Nat)
    (rho key tr : List Nat) (s1 s2 t0 : List (List Int)) (Mp rnd : List Nat) : Option (List Nat) :=
  -- 5: Â ← ExpandA(ρ)
  match expandA (fun x => G x nG) P.k P.l rho with
  | none => none
  | some aHat =>
    -- 6-7: μ ← H(tr ‖ M', 64); ρ'' ← H(K ‖ rnd ‖ μ, 64)
    let mu := H (tr ++ Mp) 64
    let rhoPP := H (key ++ rnd ++ mu) 64
    match signLoop P H nH s1 s2 t0 aHat mu rhoPP attempts 0 with
    | none => none
    -- 33: σ ← sigEncode(c̃, z mod± q, h)
    | some (cTilde, z, h) => some (sigEncode (1 + bitlen (P.gamma1 - 1)) P.gamma1 P.omega cTilde z h)


/-! ### the external interface: Algorithms 1-5

`IntegerToBytes(|ctx|, 1)` is `|ctx| mod 256` (one byte); the guards make sure `|ctx| ≤ 255` before it is used.  The random bit generator of
Algorithms 1, 2, 4 is a parameter: `none` = it returned `NULL` (the algorithm returns `⊥`, here inner `none`).  Outer `none` = a finite XOF
prefix ran out (not an outcome of the standard). -/

/-- the pre-hash functions of Algorithms 4 / 5 this library offers -/
inductive PreHash | sha256 | sha512 | shake128
  deriving DecidableEq, Repr

/-- Algorithm 4 lines 10-22 (Algorithm 5 lines 5-17): the DER-encoded OID and `PH_M`; SHAKE128 with 256 bits of output -/
def oidAndDigest (sha256 sha512 : List Nat → List Nat) (G : List Nat → Nat → List Nat) (M : List Nat) : PreHash → List Nat × List Nat
  | .sha256 => ([0x06, 0x09, 0x60, 0x86, 0x48, 0x01, 0x65, 0x03, 0x04, 0x02, 0x01], sha256 M)
  | .sha512 => ([0x06, 0x09, 0x60, 0x86, 0x48, 0x01, 0x65, 0x03, 0x04, 0x02, 0x03], sha512 M)
  | .shake128 => ([0x06, 0x09, 0x60, 0x86, 0x48, 0x01, 0x65, 0x03, 0x04, 0x02, 0x0B], G M 32)

/-- Algorithm 7 line 1 in front of the rest: `ML-DSA.Sign_internal(sk, M', rnd)` on the private-key bytes -/
def signInternalBytes (P : Params) (H G : List Nat → Nat → List Nat) (nG nH : Nat) (attempts : Nat) (sk Mp rnd : List Nat) : Option (List Nat) :=
  let d := skDecode (bitlen (2 * P.eta)) P.eta P.k P.l sk
  signInternal P H G nG nH attempts d.1 d.2.1 d.2.2.1 d.2.2.2.1 d.2.2.2.2.1 d.2.2.2.2.2 Mp rnd

/-- Algorithm 1 `ML-DSA.KeyGen()` -/
def keyGen (P : Params) (H G : List Nat → Nat → List Nat) (nG nH : Nat) (rbg : Option (List Nat)) : Option (Option (List Nat × List Nat)) :=
  match rbg with
  | none => some none                                   -- 2-4: if ξ = NULL then return ⊥
  | some xi => (keyGenInternal P H G nG nH xi).map some  -- 5: return ML-DSA.KeyGen_internal(ξ)

/-- Algorithm 2 `ML-DSA.Sign(sk, M, ctx)` (hedged variant: `rnd` from the RBG) -/
def sign (P : Params) (H G : List Nat → Nat → List Nat) (nG nH : Nat) (attempts : Nat) (sk M ctx : List Nat) (rbg : Option (List Nat)) :
    Option (Option (List Nat)) :=
  if ctx.length > 255 then some none else               -- 1-3
  match rbg with
  | none => some none                                   -- 5-8
  | some rnd =>
    let Mp := [0] ++ [ctx.length % 256] ++ ctx ++ M      -- 10: M' ← IntegerToBytes(0,1) ‖ IntegerToBytes(|ctx|,1) ‖ ctx ‖ M
    (signInternalBytes P H G nG nH attempts sk Mp rnd).map some  -- 11

/-- Algorithm 3 `ML-DSA.Verify(pk, M, σ, ctx)` -/
def verify (P : Params) (H G : List Nat → Nat → List Nat) (nG nH : Nat) (pk M sigma ctx : List Nat) : Option Bool :=
  if ctx.length > 255 then some false else              -- 1-3
  verifyInternal P H G nG nH pk ([0] ++ [ctx.length % 256] ++ ctx ++ M) sigma   -- 5-6

/-- Algorithm 4 `HashML-DSA.Sign(sk, M, ctx, PH)` -/
def hashSign (P : Params) (H G : List Nat → Nat → List Nat) (sha256 sha512 : List Nat → List Nat) (nG nH : Nat) (attempts : Nat)
    (sk M ctx : List Nat) (ph : PreHash) (rbg : Option (List Nat)) : Option (Option (List Nat)) :=
  if ctx.length > 255 then some none else
  match rbg with
  | none => some none
  | some rnd =>
    let od := oidAndDigest sha256 sha512 G M ph             -- (OID, PH_M)
    let Mp := [1] ++ [ctx.length % 256] ++ ctx ++ od.1 ++ od.2   -- 23: M' ← IntegerToBytes(1,1) ‖ IntegerToBytes(|ctx|,1) ‖ ctx ‖ OID ‖ PH_M
    (signInternalBytes P H G nG nH attempts sk Mp rnd).map some

/-- Algorithm 5 `HashML-DSA.Verify(pk, M, σ, ctx, PH)` -/
def hashVerify (P : Params) (H G : List Nat → Nat → List Nat) (sha256 sha512 : List Nat → List Nat) (nG nH : Nat)
    (pk M sigma ctx : List Nat) (ph : PreHash) : Option Bool :=
  if ctx.length > 255 then some false else
  let od := oidAndDigest sha256 sha512 G M ph               -- (OID, PH_M)
  verifyInternal P H G nG nH pk ([1] ++ [ctx.length % 256] ++ ctx ++ od.1 ++ od.2) sigma

end Fips204.Spec
