import Fips204.Spec.Arith
import Fips204.Spec.Codec
import Fips204.Spec.Sample
import Fips204.Spec.Ntt
/-!
  FIPS 204 Table 1 (parameter sets) and Algorithm 8 (`ML-DSA.Verify_internal`) as the standard writes it, assembled from the
  transcriptions of Algorithms 9-13, 16-21, 23, 27-30, 32, 35-42 in `Spec/*`.  Nothing here mentions the crate.
  `H` and `G` are SHAKE256 and SHAKE128 as functions "input, number of output bytes"; the two rejection samplers read a finite
  prefix of the XOF output (`nG`, `nH` bytes): `none` means that prefix was too short - the standard's loops are unbounded.
-/
namespace Fips204.Spec
open Fips204 Fips204.Gen

/-- FIPS 204 Table 1 -/
structure Params where
  tau : Nat
  lambda : Nat
  gamma1 : Int
  gamma2 : Int
  k : Nat
  l : Nat
  eta : Int
  beta : Int
  omega : Nat
  deriving DecidableEq, Repr

def mlDsa44 : Params := { tau := 39, lambda := 128, gamma1 := 2 ^ 17, gamma2 := (8380417 - 1) / 88, k := 4, l := 4, eta := 2, beta := 78, omega := 80 }
def mlDsa65 : Params := { tau := 49, lambda := 192, gamma1 := 2 ^ 19, gamma2 := (8380417 - 1) / 32, k := 6, l := 5, eta := 4, beta := 196, omega := 55 }
def mlDsa87 : Params := { tau := 60, lambda := 256, gamma1 := 2 ^ 19, gamma2 := (8380417 - 1) / 32, k := 8, l := 7, eta := 2, beta := 120, omega := 75 }

/-- `bitlen x` -/
def bitlen (x : Int) : Nat := Nat.log2 x.toNat + 1

/-- Algorithm 8 `ML-DSA.Verify_internal(pk, M', σ)` -/
def verifyInternal (P : Params) (H G : List Nat → Nat → List Nat) (nG nH : Nat) (pk Mp sigma : List Nat) : Option Bool :=
  -- 1: (ρ, t1) ← pkDecode(pk)
  let (rho, t1) := pkDecode P.k pk
  -- 2: (c̃, z, h) ← sigDecode(σ)
  let (cTilde, z, h) := sigDecode (P.lambda / 4) P.l P.k P.omega (1 + bitlen (P.gamma1 - 1)) P.gamma1 sigma
  -- 3-4: if h = ⊥ then return false
  match h with
  | none => some false
  | some h =>
    -- 5: Â ← ExpandA(ρ)
    match expandA (fun x => G x nG) P.k P.l rho with
    | none => none
    | some aHat =>
      -- 6-7: tr ← H(pk, 64); μ ← H(tr ‖ M', 64)
      let tr := H pk 64
      let mu := H (tr ++ Mp) 64
      -- 8: c ← SampleInBall(c̃)
      match sampleInBall P.tau (H cTilde nH) with
      | none => none
      | some c =>
        -- 9: w'_Approx ← NTT⁻¹(Â ∘ NTT(z) − NTT(c) ∘ NTT(t1 · 2^d))
        let w := wApprox aHat z c t1
        -- 10: w1' ← UseHint(h, w'_Approx)
        let w1 := List.zipWith (fun hp wp => List.zipWith (fun hh r => useHint P.gamma2 hh r) hp wp) h w
        -- 12: c̃' ← H(μ ‖ w1Encode(w1'), λ/4)
        let cTildeP := H (mu ++ w1Encode (bitlen ((8380417 - 1) / (2 * P.gamma2) - 1)) w1) (P.lambda / 4)
        -- 13: return [[ ‖z‖∞ < γ1 − β ]] and [[ c̃ = c̃' ]]
        some (decide (infNorm z < P.gamma1 - P.beta) && decide (cTilde = cTildeP))

/-- the formatted message `M'` the three entry paths hand to Algorithm 8 (Algorithms 3 and 5; the deprecated internal interface passes `M` itself) -/
def formatted (nist : Bool) (msg ctx oid phm : List Nat) : List Nat :=
  if nist then msg
  else if oid.isEmpty then [0] ++ [ctx.length % 256] ++ ctx ++ msg
  else [1] ++ [ctx.length % 256] ++ ctx ++ oid ++ phm


/-- Algorithm 6 `ML-DSA.KeyGen_internal(ξ)`: returns `(pk, sk)` -/
def keyGenInternal (P : Params) (H G : List Nat → Nat → List Nat) (nG nH : Nat) (xi : List Nat) : Option (List Nat × List Nat) :=
  -- 1: (ρ, ρ', K) ∈ B^32 × B^64 × B^32 ← H(ξ ‖ IntegerToBytes(k, 1) ‖ IntegerToBytes(ℓ, 1), 128)
  let hh := H (xi ++ [P.k % 256, P.l % 256]) 128
  let rho := hh.take 32
  let rhoPrime := (hh.drop 32).take 64
  let key := (hh.drop 96).take 32
  -- 3: Â ← ExpandA(ρ)
  match expandA (fun x => G x nG) P.k P.l rho with
  | none => none
  | some aHat =>
    -- 4: (s1, s2) ← ExpandS(ρ')
    match expandS (fun x => H x nH) P.eta P.k P.l rhoPrime with
    | none => none
    | some (s1, s2) =>
      -- 5: t ← NTT⁻¹(Â ∘ NTT(s1)) + s2
      let s1hat := s1.map ntt
      let t := List.zipWith (fun row s2r => addQ (invNtt (rowTimes row s1hat)) s2r) aHat s2
      -- 6: (t1, t0) ← Power2Round(t)
      let t1 := t.map (fun q => q.map (fun x => (power2round x).1))
      let t0 := t.map (fun q => q.map (fun x => (power2round x).2))
      -- 8-10: pk ← pkEncode(ρ, t1); tr ← H(pk, 64); sk ← skEncode(ρ, K, tr, s1, s2, t0)
      let pk := pkEncode rho t1
      let tr := H pk 64
      some (pk, skEncode (bitlen (2 * P.eta)) P.eta rho key tr s1 s2 t0)


/-- number of coefficients equal to 1 in a hint vector -/
def countOnes (h : List (List Int)) : Nat := (h.map (fun q => (q.filter (fun e => e = 1)).length)).foldl (· + ·) 0

/-- coefficientwise ternary map over vectors of polynomials -/
def zipWith3V (g : Int → Int → Int → Int) (a b c : List (List Int)) : List (List Int) :=
  List.zipWith (fun ap (bc : List Int × List Int) => List.zipWith (fun e (au : Int × Int) => g e au.1 au.2) ap (List.zip bc.1 bc.2)) a (List.zip b c)

/-- Algorithm 7 lines 11-29 for one value of κ.  Outer `none`: the XOF prefix handed to `SampleInBall` ran out; inner `none`: `(z, h) = ⊥`. -/
def signAttempt (P : Params) (H : List Nat → Nat → List Nat) (nH : Nat) (s1 s2 t0 : List (List Int)) (aHat : List (List (List Int)))
    (mu rhoPP : List Nat) (kappa : Nat) : Option (Option (List Nat × List (List Int) × List (List Int))) :=
  -- 11: y ← ExpandMask(ρ'', κ)
  let y := expandMask H (1 + bitlen (P.gamma1 - 1)) P.gamma1 P.l rhoPP kappa
  -- 12: w ← NTT⁻¹(Â ∘ NTT(y));  13: w1 ← HighBits(w)
  let w := aHat.map (fun row => invNtt (rowTimes row (y.map ntt)))
  let w1 := w.map (fun q => q.map (highBits P.gamma2))
  -- 15: c̃ ← H(μ ‖ w1Encode(w1), λ/4);  16: c ← SampleInBall(c̃)
  let cTilde := H (mu ++ w1Encode (bitlen ((8380417 - 1) / (2 * P.gamma2) - 1)) w1) (P.lambda / 4)
  match sampleInBall P.tau (H cTilde nH) with
  | none => none
  | some c =>
    -- 17-19: ĉ ← NTT(c); ⟨⟨cs1⟩⟩ ← NTT⁻¹(ĉ ∘ ŝ1); ⟨⟨cs2⟩⟩ ← NTT⁻¹(ĉ ∘ ŝ2)
    let cs1 := s1.map (fun s => invNtt (mulQ (ntt c) (ntt s)))
    let cs2 := s2.map (fun s => invNtt (mulQ (ntt c) (ntt s)))
    -- 20: z ← y + ⟨⟨cs1⟩⟩ (held mod± q);  21: r0 ← LowBits(w − ⟨⟨cs2⟩⟩)
    let z := List.zipWith (fun yp cp => List.zipWith (fun a b => modpm Q (a + b)) yp cp) y cs1
    let r0 := List.zipWith (fun wp cp => List.zipWith (fun a b => lowBits P.gamma2 (a - b)) wp cp) w cs2
    -- 23: if ‖z‖∞ ≥ γ1 − β or ‖r0‖∞ ≥ γ2 − β then (z, h) ← ⊥
    if decide (infNorm z ≥ P.gamma1 - P.beta) || decide (infNorm r0 ≥ P.gamma2 - P.beta) then some none else
    -- 25-26: ⟨⟨ct0⟩⟩ ← NTT⁻¹(ĉ ∘ t̂0); h ← MakeHint(−⟨⟨ct0⟩⟩, w − ⟨⟨cs2⟩⟩ + ⟨⟨ct0⟩⟩)
    let ct0 := t0.map (fun s => invNtt (mulQ (ntt c) (ntt s)))
    let h := zipWith3V (fun a b c0 => if makeHint P.gamma2 (-c0) (a - b + c0) then (1 : Int) else 0) w cs2 ct0
    -- 28: if ‖⟨⟨ct0⟩⟩‖∞ ≥ γ2 or the number of 1's in h is greater than ω then (z, h) ← ⊥
    if decide (infNorm ct0 ≥ P.gamma2) || decide (((countOnes h : Nat) : Int) > (P.omega : Int)) then some none else
    some (some (cTilde, z, h))

/-- Algorithm 7 lines 10-32: `while (z, h) = ⊥ .. κ ← κ + ℓ` (`n` bounds the number of attempts) -/
def signLoop (P : Params) (H : List Nat → Nat → List Nat) (nH : Nat) (s1 s2 t0 : List (List Int)) (aHat : List (List (List Int)))
    (mu rhoPP : List Nat) : Nat → Nat → Option (List Nat × List (List Int) × List (List Int))
  | 0, _ => none
  | n + 1, kappa =>
    match signAttempt P H nH s1 s2 t0 aHat mu rhoPP kappa with
    | none => none
    | some (some r) => some r
    | some none => signLoop P H nH s1 s2 t0 aHat mu rhoPP n (kappa + P.l)

/-- Algorithm 7 `ML-DSA.Sign_internal(sk, M', rnd)` on the decoded private key `(ρ, K, tr, s1, s2, t0)` -/
def signInternal (P : Params) (H G : List Nat → Nat → List Nat) (nG nH : Nat) (attempts : Nat)
    (rho key tr : List Nat) (s1 s2 t0 : List (List Int)) (Mp rnd : List Nat) : Option (List Nat) :=
  -- 5: Â ← ExpandA(ρ)
  match expandA (fun x => G x nG) P.k P.l rho with
  | none => none
  | some aHat =>
    -- 6-7: μ ← H(tr ‖ M', 64); ρ'' ← H(K ‖ rnd ‖ μ, 64)
    let mu := H (tr ++ Mp) 64
    let rhoPP := H (key ++ rnd ++ mu) 64
    match signLoop P H nH s1 s2 t0 aHat mu rhoPP attempts 0 with
    | none => none
    -- 33: σ ← sigEncode(c̃, z mod± q, h)
    | some (cTilde, z, h) => some (sigEncode (1 + bitlen (P.gamma1 - 1)) P.gamma1 P.omega cTilde z h)

end Fips204.Spec
