/-!
  FIPS 204 conversion algorithms on bits, bytes and polynomials, as the standard writes them
  (Algorithms 9-13 and 16-19): bit strings are lists of `0/1`, byte strings lists of naturals below 256.
  Nothing here mentions the crate.
-/
namespace Fips204.Spec

/-- Algorithm 9 `IntegerToBits(x, α)`: the `α` low bits of `x`, least significant first -/
def integerToBits (x : Nat) : Nat → List Nat
  | 0 => []
  | α + 1 => x % 2 :: integerToBits (x / 2) α

/-- Algorithm 10 `BitsToInteger(y, α)`: `Σ y[i] 2^i` -/
def bitsToInteger : List Nat → Nat
  | [] => 0
  | b :: bs => b + 2 * bitsToInteger bs

/-- Algorithm 12 `BitsToBytes(y)` for a bit string whose length is a multiple of 8: byte `j` is `Σ_{t<8} y[8j+t] 2^t` -/
def bitsToBytes : Nat → List Nat → List Nat
  | 0, _ => []
  | n + 1, y => bitsToInteger (y.take 8) :: bitsToBytes n (y.drop 8)

/-- Algorithm 13 `BytesToBits(z)`: each byte gives its eight bits, least significant first -/
def bytesToBits : List Nat → List Nat
  | [] => []
  | z :: zs => integerToBits z 8 ++ bytesToBits zs

/-- Algorithm 16 `SimpleBitPack(w, b)` with `c = bitlen b` -/
def simpleBitPack (c : Nat) (w : List Int) : List Nat :=
  bitsToBytes (32 * c) ((w.map (fun wi => integerToBits wi.toNat c)).flatten)

/-- Algorithm 17 `BitPack(w, a, b)` with `c = bitlen (a + b)` -/
def bitPack (c : Nat) (b : Int) (w : List Int) : List Nat :=
  bitsToBytes (32 * c) ((w.map (fun wi => integerToBits (b - wi).toNat c)).flatten)

/-- the first `n` consecutive groups of `c` bits of a bit string: group `i` is `(z[ic], z[ic+1], .., z[ic+c-1])` -/
def groups (c : Nat) : Nat → List Nat → List (List Nat)
  | 0, _ => []
  | n + 1, z => z.take c :: groups c n (z.drop c)

/-- Algorithm 18 `SimpleBitUnpack(v, b)`: `w_i = BitsToInteger(z[ic .. ic+c-1])` -/
def simpleBitUnpack (c : Nat) (v : List Nat) : List Int :=
  (groups c 256 (bytesToBits v)).map (fun g => (bitsToInteger g : Int))

/-- Algorithm 19 `BitUnpack(v, a, b)`: `w_i = b - BitsToInteger(z[ic .. ic+c-1])` -/
def bitUnpack (c : Nat) (b : Int) (v : List Nat) : List Int :=
  (groups c 256 (bytesToBits v)).map (fun g => b - (bitsToInteger g : Int))


/-- Algorithm 20 `HintBitPack(h)` lines 4-9 for one polynomial: `if h[i]_j ≠ 0 then y[Index] ← j; Index ← Index + 1` -/
def hintPackPoly : List (Nat × Int) → List Nat → Nat → List Nat × Nat
  | [], y, index => (y, index)
  | (j, hij) :: rest, y, index => if hij ≠ 0 then hintPackPoly rest (y.set index j) (index + 1) else hintPackPoly rest y index

/-- Algorithm 20 lines 3-11: the polynomials in order, then `y[ω + i] ← Index` -/
def hintPackFor (omega : Nat) : List (Nat × List Int) → List Nat → Nat → List Nat
  | [], y, _ => y
  | (i, hi) :: rest, y, index =>
    let (y, index) := hintPackPoly ((List.range 256).zip hi) y index
    hintPackFor omega rest (y.set (omega + i) index) index

/-- Algorithm 20 `HintBitPack(h)`: a byte string of length `ω + k` -/
def hintBitPack (omega : Nat) (h : List (List Int)) : List Nat :=
  hintPackFor omega ((List.range h.length).zip h) (List.replicate (omega + h.length) 0) 0

/-- Algorithm 21 lines 7-14: `while Index < y[ω+i]`: after the first index of a polynomial the indices must strictly increase;
    `h[i]_{y[Index]} ← 1`.  (`fuel` bounds the iterations; `Index` grows to at most `ω < 256`.) -/
def hintWhile (y : List Nat) (first limit : Nat) : Nat → Nat → List Int → Option (Nat × List Int)
  | 0, index, hp => some (index, hp)
  | fuel + 1, index, hp =>
    if index < limit then
      if index > first ∧ y.getD (index - 1) 0 ≥ y.getD index 0 then none
      else hintWhile y first limit fuel (index + 1) (hp.set (y.getD index 0) 1)
    else some (index, hp)

/-- Algorithm 21 lines 3-15: `if y[ω+i] < Index or y[ω+i] > ω then return ⊥`, then the while loop -/
def hintFor (y : List Nat) (omega : Nat) : List Nat → Nat → List (List Int) → Option (Nat × List (List Int))
  | [], index, acc => some (index, acc.reverse)
  | i :: is, index, acc =>
    if y.getD (omega + i) 0 < index ∨ y.getD (omega + i) 0 > omega then none else
    match hintWhile y index (y.getD (omega + i) 0) 256 index (List.replicate 256 0) with
    | none => none
    | some (index', hp) => hintFor y omega is index' (hp :: acc)

/-- Algorithm 21 `HintBitUnpack(y)`; `none` is `⊥`.  Lines 16-20: the bytes from `Index` to `ω - 1` must be zero. -/
def hintBitUnpack (omega k : Nat) (y : List Nat) : Option (List (List Int)) :=
  match hintFor y omega (List.range k) 0 [] with
  | none => none
  | some (index, h) => if (List.range (omega - index)).any (fun d => y.getD (index + d) 0 ≠ 0) then none else some h


/-- Algorithm 27 `sigDecode(σ)`: `σ = c̃ ‖ x_0 ‖ .. ‖ x_{ℓ-1} ‖ y` with `|c̃| = λ/4`, `|x_i| = 32 c` (`c = 1 + bitlen(γ1 - 1)`), `|y| = ω + k`;
    `z_i ← BitUnpack(x_i, γ1 - 1, γ1)`, `h ← HintBitUnpack(y)` (`none` is `⊥`) -/
def sigDecode (lam4 l k omega c : Nat) (gamma1 : Int) (sigma : List Nat) : List Nat × List (List Int) × Option (List (List Int)) :=
  (sigma.take lam4,
   (List.range l).map (fun i => bitUnpack c gamma1 ((sigma.drop (lam4 + i * (32 * c))).take (32 * c))),
   hintBitUnpack omega k (sigma.drop (lam4 + l * (32 * c))))

/-- Algorithm 23 `pkDecode(pk)`: `pk = ρ ‖ z_0 ‖ .. ‖ z_{k-1}` with `|ρ| = 32`, `|z_i| = 32 (bitlen(q-1) - d) = 320`;
    `t1[i] ← SimpleBitUnpack(z_i, 2^{bitlen(q-1)-d} - 1)` -/
def pkDecode (k : Nat) (pk : List Nat) : List Nat × List (List Int) :=
  (pk.take 32, (List.range k).map (fun i => simpleBitUnpack 10 ((pk.drop (32 + i * 320)).take 320)))

/-- Algorithm 28 `w1Encode(w1)`: `w̃1 ← w̃1 ‖ SimpleBitPack(w1[i], (q-1)/(2γ2) - 1)` for `i = 0 .. k-1` (`c = bitlen((q-1)/(2γ2) - 1)`) -/
def w1Encode (c : Nat) (w1 : List (List Int)) : List Nat :=
  (w1.map (fun r => simpleBitPack c r)).flatten


/-- Algorithm 22 `pkEncode(ρ, t1)`: `pk ← ρ ‖ SimpleBitPack(t1[0], 2^{bitlen(q-1)-d} - 1) ‖ .. ‖ SimpleBitPack(t1[k-1], ..)` (10 bits per coefficient) -/
def pkEncode (rho : List Nat) (t1 : List (List Int)) : List Nat :=
  rho ++ (t1.map (fun t => simpleBitPack 10 t)).flatten

/-- Algorithm 24 `skEncode(ρ, K, tr, s1, s2, t0)`: `ρ ‖ K ‖ tr ‖ BitPack(s1[i], η, η).. ‖ BitPack(s2[i], η, η).. ‖ BitPack(t0[i], 2^{d-1} - 1, 2^{d-1})..`
    (`c = bitlen(2η)` bits per coefficient of `s1`, `s2`; 13 bits per coefficient of `t0`) -/
def skEncode (c : Nat) (eta : Int) (rho key tr : List Nat) (s1 s2 t0 : List (List Int)) : List Nat :=
  rho ++ key ++ tr ++ (s1.map (fun x => bitPack c eta x)).flatten ++ (s2.map (fun x => bitPack c eta x)).flatten ++
    (t0.map (fun x => bitPack 13 4096 x)).flatten


/-- Algorithm 25 `skDecode(sk)`: `sk = ρ ‖ K ‖ tr ‖ y_0 .. y_{ℓ-1} ‖ z_0 .. z_{k-1} ‖ w_0 .. w_{k-1}` with `|y_i| = |z_i| = 32 c`
    (`c = bitlen(2η)`), `|w_i| = 32 d = 416`; `s1[i] ← BitUnpack(y_i, η, η)`, `s2[i] ← BitUnpack(z_i, η, η)`,
    `t0[i] ← BitUnpack(w_i, 2^{d-1} - 1, 2^{d-1})`.  (The standard notes that `s1`, `s2` may lie outside `[-η, η]` on malformed input.) -/
def skDecode (c : Nat) (eta : Int) (k l : Nat) (sk : List Nat) :
    List Nat × List Nat × List Nat × List (List Int) × List (List Int) × List (List Int) :=
  (sk.take 32, (sk.drop 32).take 32, (sk.drop 64).take 64,
   (List.range l).map (fun i => bitUnpack c eta ((sk.drop (128 + i * (32 * c))).take (32 * c))),
   (List.range k).map (fun i => bitUnpack c eta ((sk.drop (128 + l * (32 * c) + i * (32 * c))).take (32 * c))),
   (List.range k).map (fun i => bitUnpack 13 4096 ((sk.drop (128 + l * (32 * c) + k * (32 * c) + i * (32 * 13))).take (32 * 13))))

/-- every coefficient of every polynomial lies in `[-a, b]` -/
def allInRange (a b : Int) (v : List (List Int)) : Bool := v.all (fun w => w.all (fun e => decide (e ≥ -a) && decide (e ≤ b)))


/-- Algorithm 26 `sigEncode(c̃, z, h)`: `σ ← c̃ ‖ BitPack(z[0], γ1 − 1, γ1) ‖ .. ‖ BitPack(z[ℓ−1], γ1 − 1, γ1) ‖ HintBitPack(h)`
    (`c = 1 + bitlen(γ1 − 1)` bits per coefficient of `z`) -/
def sigEncode (c : Nat) (gamma1 : Int) (omega : Nat) (cTilde : List Nat) (z h : List (List Int)) : List Nat :=
  cTilde ++ (z.map (fun x => bitPack c gamma1 x)).flatten ++ hintBitPack omega h

end Fips204.Spec
