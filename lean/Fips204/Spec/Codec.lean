/-!
  FIPS 204 conversion algorithms on bits, bytes and polynomials, as the standard writes them
  (Algorithms 9-13 and 16-19): bit strings are lists of `0/1`, byte strings lists of naturals below 256.
  Nothing here mentions the crate.
-/
namespace Fips204.Spec

/-- Algorithm 9 `IntegerToBits(x, α)`: the `α` low bits of `x`, least significant first -/
def integerToBits (x : Nat) : Nat → List Nat
  | 0 => []
  | α + 1 => x % 2 :: integerToBits (x / 2) α

/-- Algorithm 10 `BitsToInteger(y, α)`: `Σ y[i] 2^i` -/
def bitsToInteger : List Nat → Nat
  | [] => 0
  | b :: bs => b + 2 * bitsToInteger bs

/-- Algorithm 12 `BitsToBytes(y)` for a bit string whose length is a multiple of 8: byte `j` is `Σ_{t<8} y[8j+t] 2^t` -/
def bitsToBytes : Nat → List Nat → List Nat
  | 0, _ => []
  | n + 1, y => bitsToInteger (y.take 8) :: bitsToBytes n (y.drop 8)

/-- Algorithm 13 `BytesToBits(z)`: each byte gives its eight bits, least significant first -/
def bytesToBits : List Nat → List Nat
  | [] => []
  | z :: zs => integerToBits z 8 ++ bytesToBits zs

/-- Algorithm 16 `SimpleBitPack(w, b)` with `c = bitlen b` -/
def simpleBitPack (c : Nat) (w : List Int) : List Nat :=
  bitsToBytes (32 * c) ((w.map (fun wi => integerToBits wi.toNat c)).flatten)

/-- Algorithm 17 `BitPack(w, a, b)` with `c = bitlen (a + b)` -/
def bitPack (c : Nat) (b : Int) (w : List Int) : List Nat :=
  bitsToBytes (32 * c) ((w.map (fun wi => integerToBits (b - wi).toNat c)).flatten)

/-- the first `n` consecutive groups of `c` bits of a bit string: group `i` is `(z[ic], z[ic+1], .., z[ic+c-1])` -/
def groups (c : Nat) : Nat → List Nat → List (List Nat)
  | 0, _ => []
  | n + 1, z => z.take c :: groups c n (z.drop c)

/-- Algorithm 18 `SimpleBitUnpack(v, b)`: `w_i = BitsToInteger(z[ic .. ic+c-1])` -/
def simpleBitUnpack (c : Nat) (v : List Nat) : List Int :=
  (groups c 256 (bytesToBits v)).map (fun g => (bitsToInteger g : Int))

/-- Algorithm 19 `BitUnpack(v, a, b)`: `w_i = b - BitsToInteger(z[ic .. ic+c-1])` -/
def bitUnpack (c : Nat) (b : Int) (v : List Nat) : List Int :=
  (groups c 256 (bytesToBits v)).map (fun g => b - (bitsToInteger g : Int))

end Fips204.Spec
