import Fips204.Spec.Arith
import Fips204.Spec.Codec
/-!
  FIPS 204 sampling algorithms (Algorithms 29, 30, 32) as the standard writes them, over the output stream of the XOF.
  `H.Init / Absorb / Squeeze` is rendered as a byte list: the bytes squeezed so far are consumed from the front.  A stream is a
  finite prefix of the XOF output here; `none` means the prefix ran out before the algorithm finished (a transcription artefact:
  the standard's loops are unbounded).  Nothing here mentions the crate.
-/
namespace Fips204.Spec
open Fips204 Fips204.Gen

/-- Algorithm 30 lines 5-10 `RejNTTPoly`: `while j < 256: s ← Squeeze(3); â[j] ← CoeffFromThreeBytes(s); if â[j] ≠ ⊥ then j ← j + 1`
    (`acc` holds `â[0..j)` in reverse; `n` bounds the number of three-byte draws) -/
def rejNtt : Nat → List Nat → List Int → Option (List Int)
  | 0, _, _ => none
  | n + 1, s, acc =>
    if acc.length ≥ 256 then some acc.reverse else
    match s with
    | b0 :: b1 :: b2 :: rest =>
      match coeffFromThreeBytes b0 b1 b2 with
      | some v => rejNtt n rest (v :: acc)
      | none => rejNtt n rest acc
    | _ => none

/-- Algorithm 30 `RejNTTPoly(ρ)` on the stream `G(ρ)` -/
def rejNTTPoly (stream : List Nat) : Option (List Int) := rejNtt (stream.length / 3 + 2) stream []

/-- Algorithm 32 `ExpandA(ρ)`: `Â[r, s] ← RejNTTPoly(ρ ‖ IntegerToBytes(s, 1) ‖ IntegerToBytes(r, 1))`; `G x` is the XOF stream on input `x` -/
def expandA (G : List Nat → List Nat) (k l : Nat) (rho : List Nat) : Option (List (List (List Int))) :=
  (List.range k).mapM (fun r => (List.range l).mapM (fun s => rejNTTPoly (G (rho ++ [s % 256, r % 256]))))

/-- Algorithm 29 lines 7-9: `j ← Squeeze(1); while j > i: j ← Squeeze(1)` -/
def squeezeAtMost (i : Nat) : List Nat → Option (Nat × List Nat)
  | [] => none
  | j :: rest => if j > i then squeezeAtMost i rest else some (j, rest)

/-- Algorithm 29 lines 6-12 for the indices `is = 256 - τ, .., 255`: `c_i ← c_j ; c_j ← (-1)^{h[i + τ - 256]}` -/
def sibLoop (tau : Nat) (h : List Nat) : List Nat → List Int → List Nat → Option (List Int)
  | [], c, _ => some c
  | i :: is, c, s =>
    match squeezeAtMost i s with
    | none => none
    | some (j, rest) =>
      let c := c.set i (c.getD j 0)
      let c := c.set j ((-1 : Int) ^ (h.getD (i + tau - 256) 0))
      sibLoop tau h is c rest

/-- Algorithm 29 `SampleInBall(ρ)` on the stream `H(ρ)`: the first 8 bytes give the sign bits `h = BytesToBits(s)` -/
def sampleInBall (tau : Nat) (stream : List Nat) : Option (List Int) :=
  sibLoop tau (bytesToBits (stream.take 8)) ((List.range tau).map (fun t => 256 - tau + t)) (List.replicate 256 0) (stream.drop 8)


/-- Algorithm 31 lines 5-17 `RejBoundedPoly`: `z ← Squeeze(1); z0 ← CoeffFromHalfByte(z mod 16, η); z1 ← CoeffFromHalfByte(⌊z/16⌋, η)`;
    `z0` then `z1` are appended when not `⊥` and while fewer than 256 coefficients are held -/
def rejBounded (eta : Int) : Nat → List Nat → List Int → Option (List Int)
  | 0, _, _ => none
  | n + 1, s, acc =>
    if acc.length ≥ 256 then some acc.reverse else
    match s with
    | z :: rest =>
      let acc := match coeffFromHalfByte eta (z % 16) with | some v => v :: acc | none => acc
      let acc := match coeffFromHalfByte eta (z / 16) with | some v => if acc.length < 256 then v :: acc else acc | none => acc
      rejBounded eta n rest acc
    | [] => none

/-- Algorithm 31 `RejBoundedPoly(ρ)` on the stream `H(ρ)` -/
def rejBoundedPoly (eta : Int) (stream : List Nat) : Option (List Int) := rejBounded eta (stream.length + 2) stream []

/-- Algorithm 33 `ExpandS(ρ)`: `s1[r] ← RejBoundedPoly(ρ ‖ IntegerToBytes(r, 2))`, `s2[r] ← RejBoundedPoly(ρ ‖ IntegerToBytes(r + ℓ, 2))` -/
def expandS (H : List Nat → List Nat) (eta : Int) (k l : Nat) (rho : List Nat) : Option (List (List Int) × List (List Int)) :=
  match (List.range l).mapM (fun r => rejBoundedPoly eta (H (rho ++ [r % 256, 0]))) with
  | none => none
  | some s1 =>
    match (List.range k).mapM (fun r => rejBoundedPoly eta (H (rho ++ [(r + l) % 256, 0]))) with
    | none => none
    | some s2 => some (s1, s2)


/-- Algorithm 34 `ExpandMask(ρ, μ)`: `c ← 1 + bitlen(γ1 − 1)`; for `r = 0 .. ℓ−1`: `ρ' ← ρ ‖ IntegerToBytes(μ + r, 2)`; `v ← H(ρ', 32c)`;
    `y[r] ← BitUnpack(v, γ1 − 1, γ1)`.  `H x n` is the first `n` bytes of SHAKE256 on `x`. -/
def expandMask (H : List Nat → Nat → List Nat) (c : Nat) (gamma1 : Int) (l : Nat) (rho : List Nat) (mu : Nat) : List (List Int) :=
  (List.range l).map (fun r => bitUnpack c gamma1 (H (rho ++ [(mu + r) % 256, (mu + r) / 256 % 256]) (32 * c)))

end Fips204.Spec
