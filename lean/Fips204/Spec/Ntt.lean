import Fips204.Basic
import Fips204.Gen.Consts
/-!
  FIPS 204 Algorithms 41 (`NTT`) and 42 (`NTT⁻¹`) over `Z_q`, with the zetas of the standard `ζ^{BitRev8(m)} mod q` (ζ = 1753),
  and the `T_q` arithmetic of Section 2.5 (`∘` is coefficientwise).  The two transforms are written as recursion on halves:
  a block of length `2 len` with zeta index `m` is split into its two halves (`w_j`, `w_{j+len}`), the butterflies of that block are
  applied, and the halves are processed with indices `2m` and `2m + 1` - the same butterflies, in the same order of `m = 1, 2, 3, ..`
  per layer (forward) and `m = 255, 254, ..` (inverse), as the three nested loops of the standard.  Nothing here mentions the crate.
-/
namespace Fips204.Spec
open Fips204 Fips204.Gen

/-- `BitRev8(m)` -/
def brv8 (i : Nat) : Nat :=
  (List.range 8).foldl (fun acc b => acc + ((i / 2 ^ b) % 2) * 2 ^ (7 - b)) 0

/-- `ζ^{BitRev8(m)} mod q` -/
def zeta (m : Nat) : Int := (1753 : Int) ^ brv8 m % Q

/-- Algorithm 41 on one block: `t ← zeta · w_{j+len}; w_{j+len} ← w_j − t; w_j ← w_j + t` (all mod q), then the two halves -/
def nttRec : Nat → Nat → List Int → List Int
  | 0, _, w => w
  | d + 1, m, w =>
    let len := w.length / 2
    let lo := w.take len
    let ts := (w.drop len).map (fun x => zeta m * x % Q)
    nttRec d (2 * m) (List.zipWith (fun a t => (a + t) % Q) lo ts) ++ nttRec d (2 * m + 1) (List.zipWith (fun a t => (a - t) % Q) lo ts)

/-- Algorithm 41 `NTT(w)` -/
def ntt (w : List Int) : List Int := nttRec 8 1 w

/-- Algorithm 42 on one block (halves first): `t ← w_j; w_j ← t + w_{j+len}; w_{j+len} ← −zeta · (t − w_{j+len})` (all mod q) -/
def invRec : Nat → Nat → List Int → List Int
  | 0, _, w => w
  | d + 1, m, w =>
    let len := w.length / 2
    let lo := invRec d (2 * m + 1) (w.take len)
    let hi := invRec d (2 * m) (w.drop len)
    List.zipWith (fun t u => (t + u) % Q) lo hi ++ List.zipWith (fun t u => (-(zeta m) * (t - u)) % Q) lo hi

/-- Algorithm 42 `NTT⁻¹(ŵ)`: the butterflies, then `f = 8347681 = 256⁻¹ mod q` -/
def invNtt (w : List Int) : List Int := (invRec 8 1 w).map (fun x => 8347681 * x % Q)

/-- coefficientwise operations of `T_q` / `R_q` -/
def addQ (a b : List Int) : List Int := List.zipWith (fun x y => (x + y) % Q) a b
def subQ (a b : List Int) : List Int := List.zipWith (fun x y => (x - y) % Q) a b
def mulQ (a b : List Int) : List Int := List.zipWith (fun x y => x * y % Q) a b

/-- one entry of `Â ∘ NTT(z)`: `Σ_j Â[i, j] ∘ NTT(z_j)` -/
def rowTimes (row : List (List Int)) (zhat : List (List Int)) : List Int :=
  (List.zipWith mulQ row zhat).foldl addQ (List.replicate 256 0)

/-- Algorithm 8 line 9: `w'_Approx ← NTT⁻¹(Â ∘ NTT(z) − NTT(c) ∘ NTT(t1 · 2^d))` -/
def wApprox (aHat : List (List (List Int))) (z : List (List Int)) (c : List Int) (t1 : List (List Int)) : List (List Int) :=
  let zhat := z.map ntt
  let chat := ntt c
  List.zipWith (fun row t => invNtt (subQ (rowTimes row zhat) (mulQ chat (ntt (t.map (fun x => x * 2 ^ 13 % Q)))))) aHat t1

/-- `‖z‖∞ = max_i |z_i mod± q|` -/
def infNorm (z : List (List Int)) : Int :=
  (z.flatten.map (fun e => absI (modpm Q e))).foldl (fun a b => if a < b then b else a) 0

end Fips204.Spec
