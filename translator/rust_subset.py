"""A small Rust-subset front end and Lean back end (DESIGN 2.4).

Supported: straight-line integer functions with `let`, `let mut` + (compound) assignment,
`if/else` (statement and expression), early `return`, `as` casts, `T::from`, method calls
(`abs`, `wrapping_mul`, `rem_euclid`, `ilog2`, `abs_diff`, `unsigned_abs`), shifts, bit
operations, comparisons, `debug_assert!`, `debug_assert_eq!`, `Ok/Err`, tuples, calls to other
translated functions.  Anything else raises `Unsupported` naming the construct, and the caller
falls back to correspondence-only for that item.

The Lean term is emitted in A-normal form over the vocabulary of Fips204/Basic.lean:
every operation that can overflow becomes `arith <type> m "<site>" (<exact integer expression>)`.
"""
import re

class Unsupported(Exception):
    pass

INT_TYPES = {'i32', 'i64', 'u8', 'u16', 'u32', 'usize', 'i128'}
RANGE = {'i32': (-2**31, 2**31 - 1), 'i64': (-2**63, 2**63 - 1), 'u8': (0, 255), 'u16': (0, 65535),
         'u32': (0, 2**32 - 1), 'usize': (0, 2**64 - 1), 'i128': (-2**127, 2**127 - 1)}

TOK = re.compile(r"""
    (?P<ws>\s+|//[^\n]*|/\*.*?\*/)
  | (?P<num>0x[0-9a-fA-F_]+(?:[iu](?:8|16|32|64|128|size))?|[0-9][0-9_]*(?:[iu](?:8|16|32|64|128|size))?)
  | (?P<str>"(?:[^"\\]|\\.)*")
  | (?P<life>'[a-z_]+\b(?!'))
  | (?P<id>[A-Za-z_][A-Za-z0-9_]*)
  | (?P<op><<=|>>=|\.\.=|::|->|=>|==|!=|<=|>=|&&|\|\||<<|>>|\+=|-=|\*=|/=|%=|\^=|&=|\|=|\.\.|[-+*/%&|^!<>=(){}\[\],;:.?\#])
""", re.X | re.S)


def tokenize(src):
    out = []
    i = 0
    while i < len(src):
        m = TOK.match(src, i)
        if not m:
            raise Unsupported(f"cannot tokenize at: {src[i:i+30]!r}")
        i = m.end()
        k = m.lastgroup
        if k == 'ws':
            continue
        out.append((k, m.group(k)))
    return out


def parse_int(tok):
    t = tok.replace('_', '')
    m = re.match(r'^(0x[0-9a-fA-F]+|[0-9]+)((?:[iu](?:8|16|32|64|128|size))?)$', t)
    v = int(m.group(1), 0)
    return v, (m.group(2) or None)


# ------------------------------------------------------------------ AST (tuples)
# ('num', value, type|None) ('var', name) ('un', op, e) ('bin', op, l, r) ('cast', e, ty)
# ('call', path, [args], generics) ('method', recv, name, [args]) ('index', e, idx) ('field', e, name)
# ('if', cond, blk, blk|None) ('block', [stmts], tail|None) ('tuple', [es]) ('macro', name, [args])
# statements: ('let', pat, ty|None, e|None) ('assign', name, op|None, e) ('expr', e) ('return', e|None) ('const', name, ty, e)

BINPREC = [  # low -> high
    ['||'], ['&&'], ['==', '!=', '<', '>', '<=', '>='], ['|'], ['^'], ['&'], ['<<', '>>'], ['+', '-'], ['*', '/', '%'],
]
PREC = {op: i for i, ops in enumerate(BINPREC) for op in ops}


class Parser:
    def __init__(self, toks):
        self.t = toks
        self.i = 0

    def peek(self, k=0):
        return self.t[self.i + k] if self.i + k < len(self.t) else ('eof', '')

    def next(self):
        x = self.peek()
        self.i += 1
        return x

    def at(self, v):
        return self.peek()[1] == v

    def eat(self, v):
        if self.peek()[1] != v:
            raise Unsupported(f"expected {v!r}, got {self.peek()[1]!r} near token {self.i}")
        return self.next()

    def maybe(self, v):
        if self.at(v):
            self.next()
            return True
        return False

    # ---- types
    def parse_type(self):
        if self.maybe('&'):
            if self.peek()[0] == 'life':
                self.next()
            self.maybe('mut')
            return ('ref', self.parse_type())
        if self.maybe('('):
            ts = []
            while not self.at(')'):
                ts.append(self.parse_type())
                self.maybe(',')
            self.eat(')')
            return ('tuple', ts)
        if self.maybe('['):
            el = self.parse_type()
            n = None
            if self.maybe(';'):
                n = self.parse_expr()
            self.eat(']')
            return ('array', el, n)
        name = self.next()[1]
        while self.maybe('::'):
            name += '::' + self.next()[1]
        args = []
        if self.at('<'):
            self.next()
            while not self.at('>'):
                args.append(self.parse_type())
                self.maybe(',')
            self.eat('>')
        if name == 'Zq':
            name = 'i32'
        return ('named', name, args) if args else name

    # ---- expressions
    def parse_expr(self, minprec=0, nostruct=False):
        lhs = self.parse_unary(nostruct)
        while True:
            op = self.peek()[1]
            if self.peek()[0] == 'op' and op in PREC and PREC[op] >= minprec:
                self.next()
                rhs = self.parse_expr(PREC[op] + 1, nostruct)
                lhs = ('bin', op, lhs, rhs)
            else:
                return lhs

    def parse_unary(self, nostruct):
        if self.at('-') or self.at('!'):
            op = self.next()[1]
            e = self.parse_unary(nostruct)
            if op == '-' and e[0] == 'num':
                return ('num', -e[1], e[2])
            return ('un', op, e)
        if self.at('&') or self.at('*'):
            self.next()
            self.maybe('mut')
            return self.parse_unary(nostruct)   # references / derefs are transparent for integers
        e = self.parse_postfix(nostruct)
        while self.at('as'):
            self.next()
            e = ('cast', e, self.parse_type())
        return e

    def parse_postfix(self, nostruct):
        e = self.parse_primary(nostruct)
        while True:
            if self.at('.'):
                self.next()
                k, name = self.next()
                if self.at('('):
                    self.next()
                    args = []
                    while not self.at(')'):
                        args.append(self.parse_expr())
                        self.maybe(',')
                    self.eat(')')
                    e = ('method', e, name, args)
                else:
                    e = ('field', e, name)
            elif self.at('['):
                self.next()
                ix = self.parse_expr()
                self.eat(']')
                e = ('index', e, ix)
            elif self.at('?'):
                self.next()
                e = ('try', e)
            else:
                return e

    def parse_primary(self, nostruct):
        k, v = self.peek()
        if k == 'num':
            self.next()
            val, ty = parse_int(v)
            return ('num', val, ty)
        if k == 'str':
            self.next()
            return ('str', v)
        if v == '(':
            self.next()
            es = []
            trailing = False
            while not self.at(')'):
                es.append(self.parse_expr())
                trailing = self.maybe(',')
            self.eat(')')
            if len(es) == 1 and not trailing:
                return es[0]
            return ('tuple', es)
        if v == 'if':
            return self.parse_if()
        if v == '{':
            return self.parse_block()
        if v == 'return':
            self.next()
            e = None if self.at(';') or self.at('}') else self.parse_expr()
            return ('return', e)
        if k == 'id':
            self.next()
            path = v
            generics = []
            while self.at('::'):
                self.next()
                if self.at('<'):
                    self.next()
                    while not self.at('>'):
                        generics.append(self.parse_type())
                        self.maybe(',')
                    self.eat('>')
                else:
                    path += '::' + self.next()[1]
            if self.at('!'):
                self.next()
                self.eat('(')
                args = []
                while not self.at(')'):
                    args.append(self.parse_expr())
                    self.maybe(',')
                self.eat(')')
                return ('macro', path, args)
            if self.at('('):
                self.next()
                args = []
                while not self.at(')'):
                    args.append(self.parse_expr())
                    self.maybe(',')
                self.eat(')')
                return ('call', path, args, generics)
            return ('var', path)
        raise Unsupported(f"unexpected token {v!r}")

    def parse_if(self):
        self.eat('if')
        c = self.parse_expr(nostruct=True)
        th = self.parse_block()
        el = None
        if self.maybe('else'):
            el = self.parse_if() if self.at('if') else self.parse_block()
            if el[0] == 'if':
                el = ('block', [], el)
        return ('if', c, th, el)

    def parse_block(self):
        self.eat('{')
        stmts = []
        tail = None
        while not self.at('}'):
            if self.at(';'):
                self.next()
                continue
            if self.at('#'):   # attribute
                self.next()
                self.eat('[')
                depth = 1
                while depth:
                    t = self.next()[1]
                    depth += (t == '[') - (t == ']')
                continue
            if self.at('let'):
                self.next()
                mut = self.maybe('mut')
                if self.maybe('('):
                    names = []
                    while not self.at(')'):
                        self.maybe('mut')
                        names.append(self.next()[1])
                        self.maybe(',')
                    self.eat(')')
                    pat = ('tuplepat', names)
                else:
                    pat = ('name', self.next()[1])
                ty = None
                if self.maybe(':'):
                    ty = self.parse_type()
                e = None
                if self.maybe('='):
                    e = self.parse_expr()
                self.eat(';')
                stmts.append(('let', pat, ty, e))
                continue
            if self.at('const'):
                self.next()
                name = self.next()[1]
                self.eat(':')
                ty = self.parse_type()
                self.eat('=')
                e = self.parse_expr()
                self.eat(';')
                stmts.append(('const', name, ty, e))
                continue
            if self.at('while') or self.at('for') or self.at('loop') or self.at('match'):
                raise Unsupported(f"construct `{self.peek()[1]}`")
            e = self.parse_expr()
            if self.peek()[1] in ('=', '+=', '-=', '*=', '^=', '&=', '|=', '<<=', '>>=') and e[0] == 'var':
                op = self.next()[1]
                rhs = self.parse_expr()
                self.eat(';')
                stmts.append(('assign', e[1], None if op == '=' else op[:-1], rhs))
                continue
            if self.maybe(';'):
                stmts.append(('return', e[1]) if e[0] == 'return' else ('expr', e))
                continue
            if e[0] == 'if' and not self.at('}'):
                stmts.append(('expr', e))
                continue
            if e[0] == 'return':
                stmts.append(('return', e[1]))
                continue
            tail = e
        self.eat('}')
        return ('block', stmts, tail)


def find_fn(src, name):
    """Return (generics, params, ret, body_ast) of `fn name` in src."""
    m = re.search(r'\bfn\s+' + re.escape(name) + r'\b', src)
    if not m:
        raise Unsupported(f"fn {name} not found")
    toks = tokenize(src[m.start():])
    p = Parser(toks)
    p.eat('fn')
    p.next()
    generics = []
    if p.maybe('<'):
        while not p.at('>'):
            p.eat('const')
            g = p.next()[1]
            p.eat(':')
            generics.append((g, p.parse_type()))
            p.maybe(',')
        p.eat('>')
    p.eat('(')
    params = []
    while not p.at(')'):
        p.maybe('mut')
        n = p.next()[1]
        p.eat(':')
        params.append((n, p.parse_type()))
        p.maybe(',')
    p.eat(')')
    ret = None
    if p.maybe('->'):
        ret = p.parse_type()
    body = p.parse_block()
    return generics, params, ret, body


def parse_expr_src(src):
    p = Parser(tokenize(src))
    e = p.parse_expr()
    if p.peek()[0] != 'eof':
        raise Unsupported(f"trailing tokens in expression: {src!r}")
    return e


# ------------------------------------------------------------------ Lean back end
class Ctx:
    def __init__(self, file, fn, consts, fns):
        self.file = file
        self.fn = fn
        self.consts = dict(consts)   # name -> (value, type)
        self.fns = fns               # name -> (param kinds, ret kind) of already translated functions
        self.env = {}                # var -> type
        self.local_consts = set()
        self.n = 0
        self.site_n = 0

    def fresh(self):
        self.n += 1
        return f"t{self.n}"

    def site(self, what):
        self.site_n += 1
        return f"\"{self.file}:{self.fn}:{what}#{self.site_n}\""


def divergent(blk):
    """does the block always leave through `return`?"""
    _, stmts, tail = blk
    for s in stmts:
        if s[0] == 'return':
            return True
        if s[0] == 'expr' and s[1][0] == 'if':
            _, c, th, el = s[1]
            if el is not None and divergent(th) and divergent(el):
                return True
    if tail is not None and tail[0] == 'if':
        _, c, th, el = tail
        return el is not None and divergent(th) and divergent(el)
    return False


def assigned_outer(blk, declared=None):
    """variables assigned in blk (or nested ifs) that are not declared inside it"""
    declared = set(declared or ())
    out = []
    _, stmts, tail = blk
    for s in stmts:
        if s[0] == 'let':
            if s[1][0] == 'name':
                declared.add(s[1][1])
            else:
                declared.update(s[1][1])
        elif s[0] == 'assign':
            if s[1] not in declared and s[1] not in out:
                out.append(s[1])
        elif s[0] == 'expr' and s[1][0] == 'if':
            for b in (s[1][2], s[1][3]):
                if b is not None:
                    for v in assigned_outer(b, declared):
                        if v not in out:
                            out.append(v)
    return out


class Emitter:
    """Translates one function body to Lean `do` code lines."""

    def __init__(self, ctx):
        self.c = ctx

    # --- constant evaluation (exact, Rust semantics for / and %)
    def const_eval(self, e):
        k = e[0]
        if k == 'num':
            return e[1], e[2]
        if k == 'var' and e[1] in self.c.consts:
            return self.c.consts[e[1]]
        if k == 'cast':
            r = self.const_eval(e[1])
            if r is None:
                return None
            ty = e[2]
            lo, hi = RANGE[ty]
            v = (r[0] - lo) % (hi - lo + 1) + lo
            return v, ty
        if k == 'un' and e[1] == '-':
            r = self.const_eval(e[2])
            return None if r is None else (-r[0], r[1])
        if k == 'bin':
            a, b = self.const_eval(e[2]), self.const_eval(e[3])
            if a is None or b is None:
                return None
            ty = a[1] or b[1]
            op = e[1]
            x, y = a[0], b[0]
            if op == '+': v = x + y
            elif op == '-': v = x - y
            elif op == '*': v = x * y
            elif op == '/':
                if y == 0: return None
                v = abs(x) // abs(y) * (1 if (x >= 0) == (y >= 0) else -1)
            elif op == '%':
                if y == 0: return None
                v = abs(x) % abs(y) * (1 if x >= 0 else -1)
            elif op == '<<': v = x << y
            elif op == '>>': v = x >> y
            elif op == '&': v = x & y
            elif op == '|': v = x | y
            elif op == '^': v = x ^ y
            else: return None
            if ty is not None:
                lo, hi = RANGE[ty]
                if not (lo <= v <= hi):
                    return None      # would overflow: leave it to the run-time form
            return v, ty
        if k == 'method' and e[2] in ('wrapping_mul', 'rem_euclid') and len(e[3]) == 1:
            a, b = self.const_eval(e[1]), self.const_eval(e[3][0])
            if a is None or b is None:
                return None
            ty = a[1] or b[1]
            if e[2] == 'wrapping_mul':
                lo, hi = RANGE[ty]
                return ((a[0] * b[0] - lo) % (hi - lo + 1) + lo), ty
            return a[0] % b[0], ty
        return None

    def lit(self, v):
        return str(v) if v >= 0 else f"({v})"

    # --- expression -> (lean atom, type); may append statements to `out`
    def ex(self, e, out, want=None):
        c = self.c
        ce = self.const_eval(e)
        if ce is not None and e[0] != 'var':
            return self.lit(ce[0]), (ce[1] or want)
        k = e[0]
        if k == 'var':
            n = e[1]
            if n in c.env:
                return lean_name(n), c.env[n]
            if n in c.consts:
                if n in c.local_consts:
                    return self.lit(c.consts[n][0]), c.consts[n][1]
                return n, c.consts[n][1]
            raise Unsupported(f"unknown variable {n}")
        if k == 'num':
            return self.lit(e[1]), (e[2] or want)
        if k == 'cast':
            a, ta = self.ex(e[1], out)
            ty = e[2]
            if ta == 'bool':
                t = c.fresh()
                out.append(f"let {t} : Int := if {a} then 1 else 0")
                return t, ty
            if ta is not None and ty in RANGE and RANGE[ty][0] <= RANGE[ta][0] and RANGE[ta][1] <= RANGE[ty][1]:
                return a, ty          # lossless widening
            t = c.fresh()
            out.append(f"let {t} := IT.{ty}.wrap {a}")
            return t, ty
        if k == 'un':
            if e[1] == '-':
                a, ta = self.ex(e[2], out, want)
                t = c.fresh()
                out.append(f"let {t} ← arith .{ta or 'i32'} md {c.site('neg')} (-{a})")
                return t, ta
            if e[1] == '!':
                a, ta = self.ex(e[2], out)
                if ta != 'bool':
                    raise Unsupported("bitwise not")
                return f"(!{a})", 'bool'
        if k == 'bin':
            op = e[1]
            if op in ('&&', '||'):
                o1, o2 = [], []
                a, _ = self.ex(e[2], o1)
                b, _ = self.ex(e[3], o2)
                out.extend(o1)
                if o2 and any('←' in s for s in o2):
                    raise Unsupported("short-circuit operand with a fallible operation")
                out.extend(o2)
                return f"({a} {op} {b})", 'bool'
            # operands: give the typed side's type to an untyped literal
            tl = self.ty_of(e[2])
            tr = self.ty_of(e[3])
            ty = tl or tr or want or 'i32'
            a, _ = self.ex(e[2], out, ty)
            if op in ('<<', '>>'):
                b, _ = self.ex(e[3], out, 'u32')
            else:
                b, _ = self.ex(e[3], out, ty)
            if op in ('==', '!=', '<', '>', '<=', '>='):
                lop = {'==': '=', '!=': '≠', '<': '<', '>': '>', '<=': '≤', '>=': '≥'}[op]
                return f"(decide ({a} {lop} {b}))", 'bool'
            t = c.fresh()
            if op in ('+', '-', '*'):
                out.append(f"let {t} ← arith .{ty} md {c.site(op)} ({a} {op} {b})")
            elif op == '<<':
                sh = self.const_eval(e[3])
                if sh is not None and 0 <= sh[0] < {'i32': 32, 'i64': 64, 'u8': 8, 'u16': 16, 'u32': 32, 'usize': 64}[ty]:
                    out.append(f"let {t} := IT.{ty}.wrap ({a} * {2 ** sh[0]})")
                else:
                    out.append(f"let {t} ← shl .{ty} md {c.site('shl')} {a} {b}")
            elif op == '>>':
                sh = self.const_eval(e[3])
                if sh is not None and 0 <= sh[0] < {'i32': 32, 'i64': 64, 'u8': 8, 'u16': 16, 'u32': 32, 'usize': 64}[ty]:
                    out.append(f"let {t} := {a} / {2 ** sh[0]}")
                else:
                    out.append(f"let {t} ← shr .{ty} md {c.site('shr')} {a} {b}")
            elif op == '&':
                out.append(f"let {t} := band .{ty} {a} {b}")
            elif op == '|':
                out.append(f"let {t} := bor .{ty} {a} {b}")
            elif op == '^':
                out.append(f"let {t} := bxor .{ty} {a} {b}")
            elif op in ('/', '%'):
                f = 'Int.tdiv' if op == '/' else 'Int.tmod'
                out.append(f"let {t} ← (if {b} = 0 then throw (Fault.expect {c.site('div0')}) else arith .{ty} md {c.site(op)} ({f} {a} {b}))")
            else:
                raise Unsupported(f"operator {op}")
            return t, ty
        if k == 'method':
            recv, name, args = e[1], e[2], e[3]
            a, ta = self.ex(recv, out, want)
            ta = ta or want or 'i32'
            t = c.fresh()
            if name == 'abs' and not args:
                out.append(f"let {t} ← arith .{ta} md {c.site('abs')} (absI {a})")
                return t, ta
            if name == 'wrapping_mul':
                b, _ = self.ex(args[0], out, ta)
                out.append(f"let {t} := IT.{ta}.wrap ({a} * {b})")
                return t, ta
            if name == 'rem_euclid':
                b, _ = self.ex(args[0], out, ta)
                out.append(f"let {t} ← remEuclid {c.site('rem_euclid')} {a} {b}")
                return t, ta
            if name == 'ilog2':
                out.append(f"let {t} ← ilog2 {c.site('ilog2')} {a}")
                return t, 'u32'
            if name == 'abs_diff':
                b, _ = self.ex(args[0], out, ta)
                out.append(f"let {t} := absI ({a} - {b})")
                return t, {'i32': 'u32', 'i64': 'u64'}.get(ta, ta)
            if name == 'unsigned_abs':
                out.append(f"let {t} := absI {a}")
                return t, {'i32': 'u32', 'i64': 'u64'}.get(ta, ta)
            raise Unsupported(f"method .{name}()")
        if k == 'call':
            path, args = e[1], e[2]
            m_ = re.match(r'^(i32|i64|u8|u16|u32|usize)::from$', path)
            if m_:
                a, ta = self.ex(args[0], out)
                if ta == 'bool':
                    t = c.fresh()
                    out.append(f"let {t} : Int := if {a} then 1 else 0")
                    return t, m_.group(1)
                return a, m_.group(1)
            m_ = re.match(r'^(i32|i64)::abs$', path)
            if m_:
                return self.ex(('method', args[0], 'abs', []), out, m_.group(1))
            if path in c.fns:
                pk, rk = c.fns[path]
                gen = e[3]
                al = []
                for g in gen:
                    al.append(lean_name(g) if isinstance(g, str) else '?')
                for x, (pn, pt) in zip(args, pk):
                    a, _ = self.ex(x, out, pt if pt in RANGE else None)
                    al.append(a)
                t = c.fresh()
                out.append(f"let {t} ← {path} md {' '.join(al)}")
                return t, rk
            raise Unsupported(f"call to {path}")
        if k == 'if':
            return self.if_value(e, out, want)
        if k == 'index':
            base, ix = e[1], e[2]
            if base[0] == 'var' and ix[0] == 'num' and (base[1] + f"_{ix[1]}") in c.env:
                n = base[1] + f"_{ix[1]}"
                return lean_name(n), c.env[n]
            raise Unsupported("general indexing")
        if k == 'tuple':
            parts = [self.ex(x, out)[0] for x in e[1]]
            return "(" + ", ".join(parts) + ")", 'tuple'
        raise Unsupported(f"expression kind {k}")

    def ty_of(self, e):
        """static type of an expression if determinable without emitting code"""
        k = e[0]
        if k == 'num':
            return e[2]
        if k == 'var':
            if e[1] in self.c.env:
                return self.c.env[e[1]]
            if e[1] in self.c.consts:
                return self.c.consts[e[1]][1]
            return None
        if k == 'cast':
            return e[2]
        if k == 'un':
            return self.ty_of(e[2])
        if k == 'bin':
            if e[1] in ('==', '!=', '<', '>', '<=', '>=', '&&', '||'):
                return 'bool'
            if e[1] in ('<<', '>>'):
                return self.ty_of(e[2])
            return self.ty_of(e[2]) or self.ty_of(e[3])
        if k == 'method':
            if e[2] == 'ilog2':
                return 'u32'
            return self.ty_of(e[1])
        if k == 'call':
            m_ = re.match(r'^(i32|i64|u8|u16|u32|usize)::(from|abs)$', e[1])
            if m_:
                return m_.group(1)
            if e[1] in self.c.fns:
                return self.c.fns[e[1]][1]
        if k == 'index':
            if e[1][0] == 'var' and e[2][0] == 'num':
                return self.c.env.get(e[1][1] + f"_{e[2][1]}")
        if k == 'if':
            _, _, th, el = e
            return (self.ty_of(th[2]) if th[2] is not None else None) or (self.ty_of(el[2]) if el and el[2] is not None else None)
        return None

    def if_value(self, e, out, want):
        """`if` used as an expression: both branches yield a value"""
        _, cnd, th, el = e
        if el is None:
            raise Unsupported("if-expression without else")
        ca, _ = self.ex(cnd, out)
        saved = dict(self.c.env)
        l1, v1, t1 = self.block_value(th, want)
        self.c.env = dict(saved)
        l2, v2, t2 = self.block_value(el, want)
        self.c.env = saved
        t = self.c.fresh()
        ty = t1 or t2 or want
        out.append(f"let {t} ← (if {ca} then (do\n" + indent(l1 + [f"pure {v1}"], 4) + ")\n  else (do\n" + indent(l2 + [f"pure {v2}"], 4) + "))")
        return t, ty

    def block_value(self, blk, want):
        _, stmts, tail = blk
        lines = []
        for s in stmts:
            self.stmt(s, lines)
        if tail is None:
            raise Unsupported("block without value")
        v, ty = self.ex(tail, lines, want)
        return lines, v, ty

    # --- statements
    def stmt(self, s, out):
        c = self.c
        k = s[0]
        if k == 'const':
            ce = self.const_eval(s[3])
            if ce is None:
                raise Unsupported(f"non-constant const {s[1]}")
            lo, hi = RANGE[s[2]]
            c.consts[s[1]] = ((ce[0] - lo) % (hi - lo + 1) + lo, s[2])
            c.local_consts.add(s[1])
            return
        if k == 'let':
            pat, ty, e = s[1], s[2], s[3]
            if e is None:
                if pat[0] != 'name':
                    raise Unsupported("uninitialised tuple let")
                c.env[pat[1]] = ty if isinstance(ty, str) else None
                return
            if pat[0] == 'tuplepat':
                if e[0] == 'call' and e[1] in c.fns and c.fns[e[1]][1] == 'tuple2':
                    al = [self.ex(x, out)[0] for x in e[2]]
                    ns = [lean_name(n) for n in pat[1]]
                    out.append(f"let ({', '.join(ns)}) ← {e[1]} md {' '.join(al)}")
                    for n in pat[1]:
                        c.env[n] = 'i32'
                    return
                raise Unsupported("tuple pattern")
            a, ta = self.ex(e, out, ty if isinstance(ty, str) else None)
            c.env[pat[1]] = (ty if isinstance(ty, str) else None) or ta
            if a != lean_name(pat[1]):
                out.append(f"let {lean_name(pat[1])} := {a}")
            return
        if k == 'assign':
            name, op, e = s[1], s[2], s[3]
            if op is None:
                a, ta = self.ex(e, out, c.env.get(name))
                if c.env.get(name) is None:
                    c.env[name] = ta
                out.append(f"let {lean_name(name)} := {a}")
            else:
                a, ta = self.ex(('bin', op, ('var', name), e), out, c.env.get(name))
                out.append(f"let {lean_name(name)} := {a}")
            return
        if k == 'expr':
            e = s[1]
            if e[0] == 'macro':
                self.macro(e, out)
                return
            if e[0] == 'if':
                self.if_stmt(e, out)
                return
            raise Unsupported(f"expression statement {e[0]}")
        raise Unsupported(f"statement {k}")

    def macro(self, e, out):
        c = self.c
        name, args = e[1], e[2]
        if name == 'debug_assert':
            inner = []
            a, _ = self.ex(args[0], inner)
            label = args[1][1].strip('"') if len(args) > 1 and args[1][0] == 'str' else ''
            site = f"\"{c.file}:{c.fn}:debug_assert({label})\""
            out.append(f"dassertM md {site} (do\n" + indent(inner + [f"pure {a}"], 4) + ")")
            return
        if name == 'debug_assert_eq':
            inner = []
            a, ta = self.ex(args[0], inner)
            b, _ = self.ex(args[1], inner, ta)
            label = args[2][1].strip('"') if len(args) > 2 and args[2][0] == 'str' else ''
            site = f"\"{c.file}:{c.fn}:debug_assert_eq({label})\""
            out.append(f"dassertM md {site} (do\n" + indent(inner + [f"pure (decide ({a} = {b}))"], 4) + ")")
            return
        raise Unsupported(f"macro {name}!")

    def if_stmt(self, e, out):
        """non-diverging `if` statement: thread the variables it assigns"""
        c = self.c
        _, cnd, th, el = e
        vs = assigned_outer(th)
        if el is not None:
            for v in assigned_outer(el):
                if v not in vs:
                    vs.append(v)
        if not vs:
            raise Unsupported("if statement without effect")
        ca, _ = self.ex(cnd, out)
        saved = dict(c.env)

        def branch(b):
            c.env = dict(saved)
            ls = []
            if b is not None:
                for s in b[1]:
                    self.stmt(s, ls)
                if b[2] is not None:
                    raise Unsupported("value in statement-if")
            for v in vs:
                if c.env.get(v) is None and saved.get(v) is None and b is None:
                    raise Unsupported(f"{v} may be uninitialised")
            tys = {v: c.env.get(v) for v in vs}
            ret = lean_name(vs[0]) if len(vs) == 1 else "(" + ", ".join(lean_name(v) for v in vs) + ")"
            return ls + [f"pure {ret}"], tys
        l1, ty1 = branch(th)
        l2, ty2 = branch(el)
        c.env = saved
        for v in vs:
            c.env[v] = ty1.get(v) or ty2.get(v) or saved.get(v)
        pat = lean_name(vs[0]) if len(vs) == 1 else "(" + ", ".join(lean_name(v) for v in vs) + ")"
        out.append(f"let {pat} ← (if {ca} then (do\n" + indent(l1, 4) + ")\n  else (do\n" + indent(l2, 4) + "))")

    # --- function bodies: statements with early return
    def body(self, stmts, tail, ret):
        """returns lines of a do-block computing the function's result"""
        c = self.c
        out = []
        for i, s in enumerate(stmts):
            if s[0] == 'return':
                out.append(self.ret_value(s[1], out, ret))
                return out
            if s[0] == 'expr' and s[1][0] == 'if':
                _, cnd, th, el = s[1]
                rest = (stmts[i + 1:], tail)
                if divergent(th) and el is None:
                    ca, _ = self.ex(cnd, out)
                    saved = dict(c.env)
                    l1 = self.body(th[1], th[2], ret)
                    c.env = dict(saved)
                    l2 = self.body(rest[0], rest[1], ret)
                    c.env = saved
                    out.append(f"if {ca} then (do\n" + indent(l1, 4) + ")\nelse (do\n" + indent(l2, 4) + ")")
                    return out
                if el is not None and (divergent(th) or divergent(el)):
                    ca, _ = self.ex(cnd, out)
                    saved = dict(c.env)
                    l1 = self.body(th[1], th[2], ret) if divergent(th) else self.body(th[1] + rest[0], rest[1], ret)
                    c.env = dict(saved)
                    l2 = self.body(el[1], el[2], ret) if divergent(el) else self.body(el[1] + rest[0], rest[1], ret)
                    c.env = saved
                    out.append(f"if {ca} then (do\n" + indent(l1, 4) + ")\nelse (do\n" + indent(l2, 4) + ")")
                    return out
            self.stmt(s, out)
        if tail is None:
            raise Unsupported("function body without value")
        if tail[0] == 'if':
            _, cnd, th, el = tail
            if el is None:
                raise Unsupported("tail if without else")
            ca, _ = self.ex(cnd, out)
            saved = dict(c.env)
            l1 = self.body(th[1], th[2], ret)
            c.env = dict(saved)
            l2 = self.body(el[1], el[2], ret)
            c.env = saved
            out.append(f"if {ca} then (do\n" + indent(l1, 4) + ")\nelse (do\n" + indent(l2, 4) + ")")
            return out
        if tail[0] == 'block':
            return out + self.body(tail[1], tail[2], ret)
        out.append(self.ret_value(tail, out, ret))
        return out

    def ret_value(self, e, out, ret):
        if ret == 'option':
            if e[0] == 'call' and e[1] == 'Ok':
                a, _ = self.ex(e[2][0], out)
                return f"pure (some {a})"
            if e[0] == 'call' and e[1] == 'Err':
                return "pure none"
            raise Unsupported("Result value that is not Ok(..)/Err(..)")
        if ret == 'bool':
            a, _ = self.ex(e, out)
            return f"pure {a}"
        a, _ = self.ex(e, out, ret if ret in RANGE else None)
        return f"pure {a}"


def indent(lines, n):
    pad = ' ' * n
    return "\n".join(pad + l.replace("\n", "\n" + pad) for l in lines)


RESERVED = {'at', 'from', 'to', 'end', 'open', 'in', 'do', 'then', 'else', 'fun', 'show', 'have', 'by', 'match', 'with', 'where', 'res'}


def lean_name(n):
    n = n.lstrip('_') or 'u'
    return n + "'" if n in RESERVED - {'res'} else n


def ret_kind(ret):
    if ret is None:
        return 'unit'
    if isinstance(ret, str):
        return ret
    if ret[0] == 'named' and ret[1] == 'Result':
        return 'option'
    if ret[0] == 'tuple':
        return 'tuple2'
    raise Unsupported(f"return type {ret}")


def translate_fn(src, file, name, consts, fns, lean_fn_name=None):
    """Translate `fn name` to a Lean definition string; registers it in `fns`."""
    generics, params, ret, body = find_fn(src, name)
    ctx = Ctx(file, name, consts, fns)
    lparams = []
    pk = []
    for g, t in generics:
        ctx.env[g] = 'bool' if t == 'bool' else t
        lparams.append(f"({lean_name(g)} : {'Bool' if t == 'bool' else 'Int'})")
    for n, t in params:
        if isinstance(t, tuple) and t[0] == 'array':
            cnt = t[2][1]
            for i in range(cnt):
                ctx.env[f"{n}_{i}"] = t[1]
                lparams.append(f"({lean_name(n)}_{i} : Int)")
            pk.append((n, 'array'))
        else:
            ctx.env[n] = t
            lparams.append(f"({lean_name(n)} : {'Bool' if t == 'bool' else 'Int'})")
            pk.append((n, t))
    rk = ret_kind(ret)
    em = Emitter(ctx)
    lines = em.body(body[1], body[2], rk)
    lret = {'option': 'Option Int', 'tuple2': 'Int × Int', 'bool': 'Bool', 'unit': 'Unit'}.get(rk, 'Int')
    fns[name] = (pk, rk)
    ln = lean_fn_name or name
    return f"def {ln} (md : Mode) {' '.join(lparams)} : M ({lret}) := do\n" + indent(lines, 2) + "\n"


def translate_expr(expr_src, file, label, env, consts, fns, lean_name_, kind='int'):
    """Translate a stand-alone expression over the variables in `env` (name -> type)."""
    e = parse_expr_src(expr_src)
    ctx = Ctx(file, label, consts, fns)
    ctx.env = dict(env)
    em = Emitter(ctx)
    out = []
    a, ty = em.ex(e, out)
    params = ' '.join(f"({lean_name(n)} : {'Bool' if t == 'bool' else 'Int'})" for n, t in env.items())
    lret = 'Bool' if ty == 'bool' else 'Int'
    return f"def {lean_name_} (md : Mode) {params} : M ({lret}) := do\n" + indent(out + [f"pure {a}"], 2) + "\n"
