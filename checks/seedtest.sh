#!/bin/bash
# usage: seedtest.sh <worktree> <seed-name> <prop> [more props...]
# 1. confirm the seeded change: builds, 40 tests pass, demo fails with it and passes without it (in the scratch worktree)
# 2. keep it under /verif/seeded/<seed-name>/   3. run the given checks against it (applied to /repo, undone afterwards)
set -u
wt=$1; name=$2; shift 2
out=/verif/seeded/$name; mkdir -p $out
cp $wt/seed/patch.diff $out/patch.diff
cp $wt/seed/notes.md $out/notes.md 2>/dev/null
cp $wt/tests/seed_demo.rs $out/seed_demo.rs 2>/dev/null || cp $wt/seed/seed_demo.rs $out/seed_demo.rs
feat=""; grep -q "verif_hooks" $out/seed_demo.rs && feat="--features verif-hooks"
# a demo may name the exact feature flags it needs on its first line: "// features: --no-default-features --features ml-dsa-65"
ff=$(head -1 $out/seed_demo.rs | sed -n 's|^// features: *\(--.*\)$|\1|p'); [ -n "$ff" ] && feat="$ff"
cd $wt
export CARGO_NET_OFFLINE=true
git stash -q -u 2>/dev/null; git stash drop -q 2>/dev/null; git checkout -q -- . ; git clean -qfd -e target
git apply $out/patch.diff || { echo "PATCH DOES NOT APPLY"; exit 2; }
rm -f tests/seed_demo.rs      # the suite is run unedited (a demo that needs --features verif-hooks would not even compile here)
b=$(cargo build --offline 2>&1 | tail -1)
t=$(cargo test --workspace --no-fail-fast --offline 2>&1 | grep -E "^test result" | tr '\n' ';')
cp $out/seed_demo.rs tests/seed_demo.rs
d1=$(cargo test --offline $feat --test seed_demo 2>&1 | grep -E "^test result" | tail -1)
git apply -R $out/patch.diff
d0=$(cargo test --offline $feat --test seed_demo 2>&1 | grep -E "^test result" | tail -1)
echo "build: $b"; echo "suite with change: $t"; echo "demo with change: $d1"; echo "demo without change: $d0"
cd /repo && git diff --quiet || { echo "repo dirty"; exit 2; }
git apply $out/patch.diff
res=""
for p in "$@"; do
  r=$(cd /verif && timeout 1800 python3 checks/run.py $p --tier quick 2>&1 | grep -E "VIOLATION|^\[C" | head -3 | tr '\n' ' ')
  echo "check $p: $r"; res="$res $p: $(echo $r | grep -c VIOLATION)"
done
git -C /repo checkout -- .
cd /verif && python3 translator/gen.py > /dev/null
python3 - "$out" "$name" "$b" "$t" "$d1" "$d0" "$res" "$*" <<'PY'
import json,sys
out,name,b,t,d1,d0,res,props=sys.argv[1:9]
json.dump({"seed":name,"breaks_property":props.split()[0],"checks_run":props.split(),"build":b,"suite_with_change":t,"demo_with_change":d1,"demo_without_change":d0,
           "check_results":res.strip(),"needs_to_manifest":"see notes.md","confirmed_by":"checks/seedtest.sh in a scratch worktree; checks run against /repo with the patch applied and reverted afterwards"},open(out+"/meta.json","w"),indent=1)
PY
