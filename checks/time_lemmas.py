import re,subprocess,time,sys
f=sys.argv[1]; only=sys.argv[2:] 
src=open(f).read()
m=re.search(r'namespace [^\n]*\nopen [^\n]*\n',src)
hdr=src[:m.end()]
rest=src[m.end():]
parts=re.split(r'\n(?=theorem |/-- |def |/-! )',rest)
done=[]
for p in parts:
    mm=re.search(r'theorem (\w+)',p)
    if not mm:
        done.append(p); continue
    name=mm.group(1)
    if only and name not in only:
        done.append(re.sub(r':= by\n.*',':= by sorry',p,flags=re.S) if ':= by\n' in p else p); continue
    open('/tmp/x_t.lean','w').write(hdr+"\n".join(done)+"\n"+p.replace('end Fips204.K','')+"\n")
    t=time.time()
    try:
        r=subprocess.run(['lake','env','lean','/tmp/x_t.lean'],cwd='/verif/lean',capture_output=True,text=True,timeout=60)
        errs=[l for l in r.stdout.split('\n') if 'error' in l]
        print(name, round(time.time()-t,1), 'OK' if not errs else errs[:3], flush=True)
    except subprocess.TimeoutExpired:
        print(name,'TIMEOUT', flush=True)
        subprocess.run(['pkill','-x','lean'])
    done.append(re.sub(r':= by\n.*',':= by sorry',p,flags=re.S) if ':= by\n' in p else p)
