#!/usr/bin/env python3
"""Makes corpus/regressions.json from /verif/replays: one operation line per failing input that an earlier run found against a seeded defect
(DESIGN 11.2), with the answer the *unchanged* crate gives to it in both build profiles.  Every one of these inputs was first judged by an
oracle (the FIPS 204 reference, a panic, a residue after drop, ..) when it was found; what is recorded here is the crate's correct answer,
which for these operations is determined by the standard (keys, signatures, decisions, decoded values) or by the property itself (no panic,
zero bytes).  Each check replays the inputs of its property first, so that the inputs that once exposed a defect are met whatever the seed
of the random families is.  Run on a clean /repo only.
Usage: python3 checks/mk_regress.py [max-per-property]"""
import glob, json, os, subprocess, sys
sys.path.insert(0, os.path.dirname(os.path.abspath(__file__)))
import core


def main():
    cap = int(sys.argv[1]) if len(sys.argv) > 1 else 40
    if subprocess.run(['git', '-C', core.REPO, 'diff', '--quiet']).returncode != 0:
        sys.exit('repo is not clean')
    byprop = {}
    for f in sorted(glob.glob(os.path.join(core.VERIF, 'replays', '*.json')), key=os.path.getmtime):
        try:
            d = json.load(open(f))
        except Exception:
            continue
        if not d.get('failing_input_found') or not d.get('ops'):
            continue
        op = d['ops'][0]
        if op.split()[0] in ('digest',) or op.startswith(('t.', 'spec_', 'oracle ', 'sweep ')):
            continue
        byprop.setdefault(d['property'], {}).setdefault(op, os.path.basename(f)[:-5])
    out = {}
    for prop, ops in sorted(byprop.items()):
        items = list(ops.items())
        if len(items) > cap:
            step = len(items) / cap
            items = [items[int(i * step)] for i in range(cap)]
        lines = [o for o, _ in items]
        res = {prof: core.run_stream([core.RUST[prof]], lines) for prof in ('checked', 'fast')}
        keep = []
        for i, (o, rid) in enumerate(items):
            a, b = res['checked'][i], res['fast'][i]
            if a is None or b is None or a.startswith(('harness:', 'panic')) or b.startswith(('harness:', 'panic')):
                continue
            keep.append({'op': o, 'checked': a, 'fast': b, 'from': rid})
        out[prop] = keep
        print(prop, len(ops), '->', len(keep))
    json.dump({'note': __doc__.split('\n')[0], 'cases': out}, open(os.path.join(core.VERIF, 'corpus', 'regressions.json'), 'w'), indent=0)


if __name__ == '__main__':
    main()
