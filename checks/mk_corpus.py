#!/usr/bin/env python3
"""One-off generator of /verif/corpus/rare_inputs.json: inputs that make rare events of the algorithms happen, found with the
Python FIPS 204 reference only (never with the crate), so that every run exercises them:
  * sign: (seed, message) whose FIPS signature carries exactly omega hints (about 0.3% of signatures), omega-1, and a hint
    vector whose last polynomial is empty;  * keygen: ML-DSA-65 seeds for which a RejBoundedPoly call needs more than two
    SHAKE256 blocks (about 7e-5 per key).
Usage: python3 checks/mk_corpus.py   (rewrites the corpus file; commit the result)"""
import hashlib, json, os, sys
sys.path.insert(0, os.path.dirname(os.path.abspath(__file__)))
import fam
from fam import R

OUT = os.path.join(os.path.dirname(os.path.dirname(os.path.abspath(__file__))), 'corpus', 'rare_inputs.json')


def hint_count(p, sig):
    return sig[-1]


def search_sign(s, span=6000):
    p = R.PARAMS[s]
    xi = hashlib.shake_256(b'verif-corpus-' + s.encode()).digest(32)
    pk, sk = fam.keypair(s, xi)
    rnd = bytes(range(32))
    ctx = b'corpus'
    jobs = [('sign', s, sk, i.to_bytes(4, 'little'), ctx, 'pure', rnd) for i in range(span)]
    sigs = fam.ref_map(jobs)
    found = {}
    om, k = p['omega'], p['k']
    for i, sig in enumerate(sigs):
        c = sig[-1]
        counts = list(sig[-k:])
        if c == om and 'omega' not in found:
            found['omega'] = i
        if c == om - 1 and 'omega-1' not in found:
            found['omega-1'] = i
        if counts[-1] == counts[-2] and 'last polynomial empty' not in found:
            found['last polynomial empty'] = i
        if counts[0] == 0 and 'first polynomial empty' not in found:
            found['first polynomial empty'] = i
    return {'xi': xi.hex(), 'ctx': ctx.hex(), 'rnd': rnd.hex(), 'messages': {t: i.to_bytes(4, 'little').hex() for t, i in found.items()}}


def search_keygen65(want=2, span=200000):
    p = R.PARAMS['65']
    k, l = p['k'], p['l']
    out = []
    base = hashlib.shake_256(b'verif-corpus-keygen').digest(24)
    for i in range(span):
        xi = i.to_bytes(8, 'little') + base
        hh = hashlib.shake_256(xi + bytes([k, l])).digest(128)
        rhop = hh[32:96]
        for r in range(k + l):
            buf = hashlib.shake_256(rhop + bytes([r, 0])).digest(272)
            acc = sum((b & 15) < 9 for b in buf) + sum((b >> 4) < 9 for b in buf)
            if acc < 256:
                out.append({'xi': xi.hex(), 'poly': r, 'accepted_in_two_blocks': acc})
                break
        if len(out) >= want:
            break
    return out


if __name__ == '__main__':
    data = {'sign': {s: search_sign(s) for s in fam.SETS}, 'keygen65_long_rejection': search_keygen65()}
    json.dump(data, open(OUT, 'w'), indent=1)
    print(json.dumps(data, indent=1)[:1500])
