"""FIPS 204 written as the standard writes it (Algorithms 1-49), over Python integers and hashlib.
Independent of the crate and of the Lean model: it is the property-level oracle
("implementation-vs-oracle" stream, DESIGN 2.5).  Validated against the ACVP vectors shipped in
/repo/tests/nist_vectors by `checks/run.py ref-selftest`.
"""
import hashlib

Q = 8380417
D = 13
ZETA = 1753
N = 256

PARAMS = {
    '44': dict(tau=39, lam=128, gamma1=1 << 17, gamma2=(Q - 1) // 88, k=4, l=4, eta=2, omega=80),
    '65': dict(tau=49, lam=192, gamma1=1 << 19, gamma2=(Q - 1) // 32, k=6, l=5, eta=4, omega=55),
    '87': dict(tau=60, lam=256, gamma1=1 << 19, gamma2=(Q - 1) // 32, k=8, l=7, eta=2, omega=75),
}
for _p in PARAMS.values():
    _p['beta'] = _p['tau'] * _p['eta']


def bitlen(x):
    return x.bit_length()


def H(data, n):
    return hashlib.shake_256(bytes(data)).digest(n)


def G(data, n):
    return hashlib.shake_128(bytes(data)).digest(n)


def modpm(x, a):
    r = x % a
    return r - a if r > a // 2 else r


def brv8(m):
    return int('{:08b}'.format(m)[::-1], 2)


ZETAS = [pow(ZETA, brv8(k), Q) for k in range(256)]


def ntt(w):
    w = [x % Q for x in w]
    m = 0
    ln = 128
    while ln >= 1:
        start = 0
        while start < 256:
            m += 1
            z = ZETAS[m]
            for j in range(start, start + ln):
                t = z * w[j + ln] % Q
                w[j + ln] = (w[j] - t) % Q
                w[j] = (w[j] + t) % Q
            start += 2 * ln
        ln //= 2
    return w


def intt(wh):
    w = [x % Q for x in wh]
    m = 256
    ln = 1
    while ln < 256:
        start = 0
        while start < 256:
            m -= 1
            z = -ZETAS[m] % Q
            for j in range(start, start + ln):
                t = w[j]
                w[j] = (t + w[j + ln]) % Q
                w[j + ln] = (t - w[j + ln]) % Q
                w[j + ln] = z * w[j + ln] % Q
            start += 2 * ln
        ln *= 2
    f = 8347681
    return [f * x % Q for x in w]


def schoolbook(a, b):
    """negacyclic product in Z_q[X]/(X^256+1), straight from the definition"""
    r = [0] * 256
    for i, x in enumerate(a):
        if x == 0:
            continue
        for j, y in enumerate(b):
            k = i + j
            if k < 256:
                r[k] += x * y
            else:
                r[k - 256] -= x * y
    return [c % Q for c in r]


# ---- 7.1 conversions
def int_to_bits(x, a):
    return [(x >> i) & 1 for i in range(a)]


def bits_to_bytes(y):
    z = bytearray((len(y) + 7) // 8)
    for i, b in enumerate(y):
        z[i // 8] |= b << (i % 8)
    return bytes(z)


def bytes_to_bits(z):
    return [(z[i // 8] >> (i % 8)) & 1 for i in range(8 * len(z))]


def bits_to_int(y):
    return sum(b << i for i, b in enumerate(y))


def simple_bit_pack(w, b):
    z = []
    for i in range(256):
        z += int_to_bits(w[i], bitlen(b))
    return bits_to_bytes(z)


def bit_pack(w, a, b):
    z = []
    for i in range(256):
        z += int_to_bits(b - w[i], bitlen(a + b))
    return bits_to_bytes(z)


def simple_bit_unpack(v, b):
    c = bitlen(b)
    z = bytes_to_bits(v)
    return [bits_to_int(z[i * c:(i + 1) * c]) for i in range(256)]


def bit_unpack(v, a, b):
    c = bitlen(a + b)
    z = bytes_to_bits(v)
    return [b - bits_to_int(z[i * c:(i + 1) * c]) for i in range(256)]


def hint_bit_pack(p, h):
    omega, k = p['omega'], p['k']
    y = bytearray(omega + k)
    index = 0
    for i in range(k):
        for j in range(256):
            if h[i][j] != 0:
                y[index] = j
                index += 1
        y[omega + i] = index
    return bytes(y)


def hint_bit_unpack(p, y):
    omega, k = p['omega'], p['k']
    h = [[0] * 256 for _ in range(k)]
    index = 0
    for i in range(k):
        if y[omega + i] < index or y[omega + i] > omega:
            return None
        first = index
        while index < y[omega + i]:
            if index > first:
                if y[index - 1] >= y[index]:
                    return None
            h[i][y[index]] = 1
            index += 1
    for i in range(index, omega):
        if y[i] != 0:
            return None
    return h


# ---- 7.2 encodings
def pk_encode(p, rho, t1):
    pk = bytes(rho)
    for i in range(p['k']):
        pk += simple_bit_pack(t1[i], (1 << (bitlen(Q - 1) - D)) - 1)
    return pk


def pk_decode(p, pk):
    rho = pk[:32]
    w = bitlen(Q - 1) - D
    t1 = [simple_bit_unpack(pk[32 + 32 * w * i:32 + 32 * w * (i + 1)], (1 << w) - 1) for i in range(p['k'])]
    return rho, t1


def sk_encode(p, rho, K, tr, s1, s2, t0):
    eta = p['eta']
    sk = bytes(rho) + bytes(K) + bytes(tr)
    for x in s1:
        sk += bit_pack(x, eta, eta)
    for x in s2:
        sk += bit_pack(x, eta, eta)
    for x in t0:
        sk += bit_pack(x, (1 << (D - 1)) - 1, 1 << (D - 1))
    return sk


def sk_decode(p, sk):
    eta, k, l = p['eta'], p['k'], p['l']
    rho, K, tr = sk[:32], sk[32:64], sk[64:128]
    c = 32 * bitlen(2 * eta)
    off = 128
    s1 = [bit_unpack(sk[off + c * i:off + c * (i + 1)], eta, eta) for i in range(l)]
    off += c * l
    s2 = [bit_unpack(sk[off + c * i:off + c * (i + 1)], eta, eta) for i in range(k)]
    off += c * k
    c2 = 32 * D
    t0 = [bit_unpack(sk[off + c2 * i:off + c2 * (i + 1)], (1 << (D - 1)) - 1, 1 << (D - 1)) for i in range(k)]
    return rho, K, tr, s1, s2, t0


def sk_fields_in_range(p, sk):
    """are all s1/s2 coefficient fields of an encoded private key inside [-eta, eta]?"""
    _, _, _, s1, s2, _ = sk_decode(p, sk)
    e = p['eta']
    return all(-e <= c <= e for x in s1 + s2 for c in x)


def sig_encode(p, ct, z, h):
    g1 = p['gamma1']
    s = bytes(ct)
    for x in z:
        s += bit_pack(x, g1 - 1, g1)
    return s + hint_bit_pack(p, h)


def sig_decode(p, sig):
    g1, l, lam = p['gamma1'], p['l'], p['lam']
    c = 32 * (1 + bitlen(g1 - 1))
    ct = sig[:lam // 4]
    off = lam // 4
    z = [bit_unpack(sig[off + c * i:off + c * (i + 1)], g1 - 1, g1) for i in range(l)]
    h = hint_bit_unpack(p, sig[off + c * l:])
    return ct, z, h


def w1_encode(p, w1):
    b = (Q - 1) // (2 * p['gamma2']) - 1
    out = b''
    for x in w1:
        out += simple_bit_pack(x, b)
    return out


def sig_len(p):
    return p['lam'] // 4 + p['l'] * 32 * (1 + bitlen(p['gamma1'] - 1)) + p['omega'] + p['k']


def pk_len(p):
    return 32 + 32 * p['k'] * (bitlen(Q - 1) - D)


def sk_len(p):
    return 128 + 32 * ((p['l'] + p['k']) * bitlen(2 * p['eta']) + D * p['k'])


# ---- 7.3 sampling
def sample_in_ball(p, rho):
    tau = p['tau']
    c = [0] * 256
    stream = H(rho, 8 + 2048)
    h = bytes_to_bits(stream[:8])
    pos = 8
    for i in range(256 - tau, 256):
        j = stream[pos]; pos += 1
        while j > i:
            j = stream[pos]; pos += 1
        c[i] = c[j]
        c[j] = (-1) ** h[i + tau - 256]
    return c


def coeff_from_three_bytes(b0, b1, b2):
    b2p = b2 - 128 if b2 > 127 else b2
    z = (b2p << 16) + (b1 << 8) + b0
    return z if z < Q else None


def coeff_from_half_byte(eta, b):
    if eta == 2 and b < 15:
        return 2 - (b % 5)
    if eta == 4 and b < 9:
        return 4 - b
    return None


def rej_ntt_poly(rho):
    s = G(rho, 840 * 4)
    a = []
    pos = 0
    while len(a) < 256:
        v = coeff_from_three_bytes(s[pos], s[pos + 1], s[pos + 2]); pos += 3
        if v is not None:
            a.append(v)
    return a


def rej_bounded_poly(eta, rho):
    s = H(rho, 2048)
    a = []
    pos = 0
    while len(a) < 256:
        z = s[pos]; pos += 1
        z0 = coeff_from_half_byte(eta, z % 16)
        z1 = coeff_from_half_byte(eta, z // 16)
        if z0 is not None:
            a.append(z0)
        if z1 is not None and len(a) < 256:
            a.append(z1)
    return a


def expand_a(p, rho):
    return [[rej_ntt_poly(bytes(rho) + bytes([s, r])) for s in range(p['l'])] for r in range(p['k'])]


def expand_s(p, rho):
    s1 = [rej_bounded_poly(p['eta'], bytes(rho) + (r).to_bytes(2, 'little')) for r in range(p['l'])]
    s2 = [rej_bounded_poly(p['eta'], bytes(rho) + (r + p['l']).to_bytes(2, 'little')) for r in range(p['k'])]
    return s1, s2


def expand_mask(p, rho, mu):
    g1 = p['gamma1']
    c = 1 + bitlen(g1 - 1)
    return [bit_unpack(H(bytes(rho) + (mu + r).to_bytes(2, 'little'), 32 * c), g1 - 1, g1) for r in range(p['l'])]


# ---- 7.4 rounding
def power2round(r):
    rp = r % Q
    r0 = modpm(rp, 1 << D)
    return (rp - r0) >> D, r0


def decompose(p, r):
    g2 = p['gamma2']
    rp = r % Q
    r0 = modpm(rp, 2 * g2)
    if rp - r0 == Q - 1:
        return 0, r0 - 1
    return (rp - r0) // (2 * g2), r0


def high_bits(p, r):
    return decompose(p, r)[0]


def low_bits(p, r):
    return decompose(p, r)[1]


def make_hint(p, z, r):
    return int(high_bits(p, r) != high_bits(p, r + z))


def use_hint(p, h, r):
    m = (Q - 1) // (2 * p['gamma2'])
    r1, r0 = decompose(p, r)
    if h == 1 and r0 > 0:
        return (r1 + 1) % m
    if h == 1 and r0 <= 0:
        return (r1 - 1) % m
    return r1


# ---- vector helpers
def vadd(a, b):
    return [[(x + y) % Q for x, y in zip(p1, p2)] for p1, p2 in zip(a, b)]


def vsub(a, b):
    return [[(x - y) % Q for x, y in zip(p1, p2)] for p1, p2 in zip(a, b)]


def pmul(a, b):
    return [x * y % Q for x, y in zip(a, b)]


def matvec(A, v):
    out = []
    for row in A:
        acc = [0] * 256
        for a, x in zip(row, v):
            acc = [(s + y) % Q for s, y in zip(acc, pmul(a, x))]
        out.append(acc)
    return out


def inf_norm(v):
    return max(abs(modpm(c, Q)) for poly in v for c in poly)


# ---- 6 internal algorithms
def keygen_internal(p, xi):
    k, l = p['k'], p['l']
    hh = H(bytes(xi) + bytes([k, l]), 128)
    rho, rhop, K = hh[:32], hh[32:96], hh[96:128]
    A = expand_a(p, rho)
    s1, s2 = expand_s(p, rhop)
    t = vadd([intt(x) for x in matvec(A, [ntt(x) for x in s1])], s2)
    t1, t0 = [], []
    for poly in t:
        pr = [power2round(c) for c in poly]
        t1.append([a for a, _ in pr]); t0.append([b for _, b in pr])
    pk = pk_encode(p, rho, t1)
    tr = H(pk, 64)
    sk = sk_encode(p, rho, K, tr, s1, s2, t0)
    return pk, sk


def sign_internal(p, sk, mprime, rnd, max_iters=100000, trace=None):
    k, l = p['k'], p['l']
    rho, K, tr, s1, s2, t0 = sk_decode(p, sk)
    s1h = [ntt(x) for x in s1]; s2h = [ntt(x) for x in s2]; t0h = [ntt(x) for x in t0]
    A = expand_a(p, rho)
    mu = H(bytes(tr) + bytes(mprime), 64)
    rhopp = H(bytes(K) + bytes(rnd) + mu, 64)
    kappa = 0
    g1, g2, beta, omega = p['gamma1'], p['gamma2'], p['beta'], p['omega']
    for it in range(max_iters):
        y = expand_mask(p, rhopp, kappa)
        w = [intt(x) for x in matvec(A, [ntt(x) for x in y])]
        w1 = [[high_bits(p, c) for c in poly] for poly in w]
        ct = H(mu + w1_encode(p, w1), p['lam'] // 4)
        c = sample_in_ball(p, ct)
        ch = ntt(c)
        cs1 = [intt(pmul(ch, x)) for x in s1h]
        cs2 = [intt(pmul(ch, x)) for x in s2h]
        z = vadd(y, cs1)
        r0 = [[low_bits(p, (a - b) % Q) for a, b in zip(p1, p2)] for p1, p2 in zip(w, cs2)]
        kappa += l
        zn = inf_norm(z)
        r0n = max(abs(c) for poly in r0 for c in poly)
        if zn >= g1 - beta or r0n >= g2 - beta:
            if trace is not None:
                trace.append(('rej1', zn, r0n))
            continue
        ct0 = [intt(pmul(ch, x)) for x in t0h]
        h = [[make_hint(p, -c0 % Q, (a - b + c0) % Q) for a, b, c0 in zip(p1, p2, p3)] for p1, p2, p3 in zip(w, cs2, ct0)]
        ct0n = inf_norm(ct0)
        ones = sum(sum(x) for x in h)
        if ct0n >= g2 or ones > omega:
            if trace is not None:
                trace.append(('rej2', ct0n, ones))
            continue
        if trace is not None:
            trace.append(('ok', zn, r0n, ct0n, ones))
        zc = [[modpm(c, Q) for c in poly] for poly in z]
        return sig_encode(p, ct, zc, h)
    return None


def verify_internal(p, pk, mprime, sig):
    if len(sig) != sig_len(p) or len(pk) != pk_len(p):
        return False
    rho, t1 = pk_decode(p, pk)
    ct, z, h = sig_decode(p, sig)
    if h is None:
        return False
    A = expand_a(p, rho)
    tr = H(pk, 64)
    mu = H(tr + bytes(mprime), 64)
    c = sample_in_ball(p, ct)
    ch = ntt(c)
    az = matvec(A, [ntt(x) for x in z])
    t1s = [ntt([(x << D) % Q for x in poly]) for poly in t1]
    wapp = [intt([(a - b) % Q for a, b in zip(p1, pmul(ch, p2))]) for p1, p2 in zip(az, t1s)]
    w1 = [[use_hint(p, hh, r) for hh, r in zip(hp, wp)] for hp, wp in zip(h, wapp)]
    ctp = H(mu + w1_encode(p, w1), p['lam'] // 4)
    return inf_norm(z) < p['gamma1'] - p['beta'] and ct == ctp


# ---- 5 external algorithms
OIDS = {'sha256': bytes([0x06, 0x09, 0x60, 0x86, 0x48, 0x01, 0x65, 0x03, 0x04, 0x02, 0x01]),
        'sha512': bytes([0x06, 0x09, 0x60, 0x86, 0x48, 0x01, 0x65, 0x03, 0x04, 0x02, 0x03]),
        'shake128': bytes([0x06, 0x09, 0x60, 0x86, 0x48, 0x01, 0x65, 0x03, 0x04, 0x02, 0x0B])}


def prehash(mode, m):
    if mode == 'sha256':
        return hashlib.sha256(bytes(m)).digest()
    if mode == 'sha512':
        return hashlib.sha512(bytes(m)).digest()
    if mode == 'shake128':
        return hashlib.shake_128(bytes(m)).digest(32)
    raise ValueError(mode)


def format_message(mode, m, ctx):
    """M' of Algorithms 2-5; None if the context is too long"""
    if len(ctx) > 255:
        return None
    if mode == 'internal':
        return bytes(m)
    if mode == 'pure':
        return bytes([0, len(ctx)]) + bytes(ctx) + bytes(m)
    return bytes([1, len(ctx)]) + bytes(ctx) + OIDS[mode] + prehash(mode, m)


def sign(p, sk, m, ctx, mode, rnd):
    mp = format_message(mode, m, ctx)
    if mp is None:
        return None
    return sign_internal(p, sk, mp, rnd)


def verify(p, pk, m, sig, ctx, mode):
    mp = format_message(mode, m, ctx)
    if mp is None:
        return False
    return verify_internal(p, pk, mp, sig)
