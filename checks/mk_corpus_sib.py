#!/usr/bin/env python3
"""Adds `sib_long` to corpus/rare_inputs.json: commitment hashes whose SampleInBall (Algorithm 29) consumes unusually many candidate bytes
(long rejection runs: a buffered / block-wise squeeze that refills wrongly, or a bounded read, shows only there; beyond 88 candidates for
ML-DSA-87 is about 1e-6 per hash).  Found with hashlib only.  Usage: python3 checks/mk_corpus_sib.py [tries-per-set]"""
import hashlib, json, os, sys
from multiprocessing import Pool

SETS = {'44': (39, 32), '65': (49, 48), '87': (60, 64)}


def used(args):
    tau, n, lo, hi = args
    best = []
    for i in range(lo, hi):
        ct = hashlib.shake_256(b'sib-corpus' + bytes([tau]) + i.to_bytes(8, 'little')).digest(n)
        s = hashlib.shake_256(ct).digest(8 + 400)
        pos = 8
        for k in range(256 - tau, 256):
            while s[pos] > k:
                pos += 1
            pos += 1
        best.append((pos - 8, ct.hex()))
        best.sort(reverse=True)
        del best[4:]
    return best


def main():
    tries = int(sys.argv[1]) if len(sys.argv) > 1 else 3000000
    path = os.path.join(os.path.dirname(os.path.dirname(os.path.abspath(__file__))), 'corpus', 'rare_inputs.json')
    data = json.load(open(path))
    out = {}
    with Pool(16) as pool:
        for s, (tau, n) in SETS.items():
            step = tries // 64
            res = pool.map(used, [(tau, n, j * step, (j + 1) * step) for j in range(64)])
            top = sorted((x for r in res for x in r), reverse=True)[:4]
            out[s] = [{'candidates_used': u, 'c_tilde': c} for u, c in top]
            print(s, [u for u, _ in top])
    data['sib_long'] = {'note': __doc__.split('\n')[0], 'cases': out}
    json.dump(data, open(path, 'w'), indent=1)


if __name__ == '__main__':
    main()
