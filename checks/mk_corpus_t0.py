"""Adds to corpus/rare_inputs.json: for ML-DSA-44, a private key that deserialisation accepts but key generation never returns
(t0 at the ends of its range) and messages for which Algorithm 7 rejects an attempt on ||c t0|| >= gamma2 (line 28, first half) -
an event with probability about 1e-7 per attempt on honest keys. Reference only (checks/ref/mldsa.py); run once."""
import json, os, random, sys
sys.path.insert(0, os.path.join(os.path.dirname(os.path.abspath(__file__)), 'ref'))
import mldsa as R

def main():
    path = os.path.join(os.path.dirname(os.path.dirname(os.path.abspath(__file__))), 'corpus', 'rare_inputs.json')
    d = json.load(open(path))
    p = R.PARAMS['44']
    rng = random.Random(20260929)
    xi = bytes([0x42]) * 32
    pk, sk = R.keygen_internal(p, xi)
    rho, K, tr, s1, s2, t0 = R.sk_decode(p, sk)
    t0x = [[4096 if rng.random() < 0.5 else -4095 for _ in range(256)] for _ in range(2)] + [[0] * 256 for _ in range(p['k'] - 2)]
    skx = R.sk_encode(p, rho, K, tr, s1, s2, t0x)
    assert R.sk_fields_in_range(p, skx)
    found = {}
    ctx = b'ctx'
    rnd = bytes([0x17]) * 32
    i = 0
    while len(found) < 3 and i < 4000:
        m = i.to_bytes(4, 'little')
        tr_ = []
        sig = R.sign_internal(p, skx, R.format_message('pure', m, ctx), rnd, trace=tr_)
        hits = [t for t in tr_ if t[0] == 'rej2' and t[1] >= p['gamma2']]
        if sig is not None and hits and len(tr_) <= 40:
            found[f'ct0_reject_{len(found)}'] = {'msg': m.hex(), 'ct0n': hits[0][1], 'attempts': len(tr_)}
        i += 1
    d['extremal_t0_44'] = {'sk': bytes(skx).hex(), 'ctx': ctx.hex(), 'rnd': rnd.hex(), 'cases': found}
    json.dump(d, open(path, 'w'), indent=1)
    print(found)

main()
