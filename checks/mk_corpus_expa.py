#!/usr/bin/env python3
"""Adds `expand_a_special` to corpus/rare_inputs.json: for every parameter set, key-generation seeds whose ExpandA (RejNTTPoly, Algorithm 30)
meets a rare 23-bit candidate (2^-23 per candidate, one seed in 600 .. 2000 per kind): an *accepted* 0, an accepted q - 1, a *rejected* q
(the smallest rejected value), a rejected 2^23 - 1, or a polynomial that needs a second SHAKE128 block of 168 * 5 = 840 bytes.
Found with hashlib only; the entries are seeds (inputs), the expected keys come from the reference at check time.
Usage: python3 checks/mk_corpus_expa.py"""
import hashlib, json, os
Q = 8380417
SETS = {'44': (4, 4), '65': (6, 5), '87': (8, 7)}
VERIF = os.path.dirname(os.path.dirname(os.path.abspath(__file__)))


def events(xi, k, l):
    rho = hashlib.shake_256(xi + bytes([k, l])).digest(128)[:32]
    ev = set()
    for r in range(k):
        for s in range(l):
            st = hashlib.shake_128(rho + bytes([s, r])).digest(1680)
            j = i = 0
            while j < 256:
                c = st[i] | (st[i + 1] << 8) | ((st[i + 2] & 0x7f) << 16)
                i += 3
                if c < Q:
                    j += 1
                    if c == 0: ev.add('accepted candidate 0')
                    if c == Q - 1: ev.add('accepted candidate q-1')
                else:
                    if c == Q: ev.add('rejected candidate q')
                    if c == (1 << 23) - 1: ev.add('rejected candidate 2^23-1')
            if i > 840: ev.add('second squeeze of 840 bytes needed')
    return ev


def main():
    out = {}
    for s, (k, l) in SETS.items():
        found = {}
        ctr = 0
        kinds = ('accepted candidate 0', 'accepted candidate q-1', 'rejected candidate q', 'rejected candidate 2^23-1', 'second squeeze of 840 bytes needed')
        while any(len(found.get(t, [])) < 2 for t in kinds) and ctr < 60000:
            xi = ctr.to_bytes(8, 'little') + bytes(24)
            for t in events(xi, k, l):
                if len(found.setdefault(t, [])) < 2:
                    found[t].append(xi.hex())
            ctr += 1
        out[s] = found
        print(s, ctr, {t: len(v) for t, v in found.items()})
    p = os.path.join(VERIF, 'corpus', 'rare_inputs.json')
    d = json.load(open(p))
    d['expand_a_special'] = {'note': __doc__.split('\n')[0], 'cases': out}
    json.dump(d, open(p, 'w'), indent=1)


if __name__ == '__main__':
    main()
