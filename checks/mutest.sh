#!/bin/bash
# usage: mutest.sh <prop> <file-in-repo> <sed-expression>   -- apply a one-off mutation to /repo, run the quick check, undo
set -u
prop=$1; file=$2; expr=$3
cd /repo && git diff --quiet || { echo "repo dirty"; exit 2; }
sed -i "$expr" "$file"
if git diff --quiet; then echo "MUTATION DID NOT APPLY"; exit 2; fi
git diff | grep '^[-+]' | grep -v '^+++\|^---' | head -6
cd /verif && timeout 1500 python3 checks/run.py $prop --tier quick 2>&1 | grep -E "VIOLATION|KNOWN|^\[C" | head -5
git -C /repo checkout -- .
