#!/usr/bin/env python3
"""Makes corpus/ct_corner_seeds.json: RNG outputs (xi || rnd, 64 bytes) for `dudect_keygen_sign_with_rng` whose single
constant-time-mode pass puts a *secret* coefficient on a rare value: a Decompose corner (w - c s2 = q - gamma2, r0 = +gamma2),
an exact zero of c t0 / w - c s2 / z, a norm exactly at a rejection bound, a hint count above omega, ...
Found by running the Lean model's `ct_probe` (Exec/Main.lean, a search aid that summarises the intermediates of that pass) over many
random draws.  The seeds are only *inputs* to C14's trace comparison (traces must be equal for every pair of RNG outputs, whatever
they are), so the corpus cannot cause a false alarm; what it adds is that a data-dependent branch taken only on such a value - three
independently seeded defects were of this kind - shows as a concrete pair of inputs instead of only as a broken inventory theorem.
Usage: python3 checks/mk_corpus_ct.py [draws-per-set]   (needs the built model; about a minute per 10 000 draws per set)"""
import json, os, random, re, sys
sys.path.insert(0, os.path.dirname(os.path.abspath(__file__)))
import core

PARAMS = {'44': dict(g1=1 << 17, g2=95232, beta=78, omega=80), '65': dict(g1=1 << 19, g2=261888, beta=196, omega=55), '87': dict(g1=1 << 19, g2=261888, beta=120, omega=75)}


def main():
    n = int(sys.argv[1]) if len(sys.argv) > 1 else 12000
    rng = random.Random(20260930)
    out = {}
    for s, P in PARAMS.items():
        draws = [bytes(rng.randrange(256) for _ in range(64)).hex() for _ in range(n)]
        res = core.run_stream([core.MODEL, '--mode', 'release'], [f"ct_probe {s} 6d7367 {d}" for d in draws])
        events = {}
        def keep(tag, d, limit=3):
            events.setdefault(tag, [])
            if len(events[tag]) < limit:
                events[tag].append(d)
        stats = {}
        for d, r in zip(draws, res):
            kv = {k: int(v) for k, v in re.findall(r'(\w+)=(-?\d+)', r)}
            if not kv:
                continue
            conds = {
                'w - c s2 on the Decompose corner q - gamma2 (r0 = -gamma2)': kv['rcorner'] > 0,
                'r0 = +gamma2 (bucket edge)': kv['r0edge'] > 0,
                'w - c s2 + c t0 on the corner q - gamma2': kv['rrcorner'] > 0,
                'a coefficient of c t0 exactly 0': kv['ct0zero'] > 0,
                'a coefficient of w - c s2 exactly 0': kv['rzero'] > 0,
                '|z| exactly at gamma1 - beta (or one below)': kv['zedge'] > 0,
                '|r0| exactly at gamma2 - beta (or one below)': kv['r0betaedge'] > 0,
                '|c t0| exactly at gamma2 (or one below)': kv['ct0edge'] > 0,
                'z norm >= gamma1 - beta (normal mode would reject)': kv['znorm'] >= P['g1'] - P['beta'],
                'z norm >= gamma1 - 1 (largest encodable)': kv['znorm'] >= P['g1'] - 1,
                'r0 norm >= gamma2 - beta (normal mode would reject)': kv['r0norm'] >= P['g2'] - P['beta'],
                'c t0 norm >= gamma2 (normal mode would reject)': kv['ct0norm'] >= P['g2'],
                'more than omega hints (normal mode would reject)': kv['hdiff'] > P['omega'],
                'no rejection condition at all': kv['znorm'] < P['g1'] - P['beta'] and kv['r0norm'] < P['g2'] - P['beta'] and kv['ct0norm'] < P['g2'] and kv['hdiff'] <= P['omega'],
            }
            for tag, c in conds.items():
                if c:
                    stats[tag] = stats.get(tag, 0) + 1
                    keep(tag, d)
        out[s] = {'draws': n, 'frequency': stats, 'events': events}
        print(s, json.dumps(stats, indent=1))
    with open(os.path.join(core.VERIF, 'corpus', 'ct_corner_seeds.json'), 'w') as f:
        json.dump(out, f, indent=1)


if __name__ == '__main__':
    main()
