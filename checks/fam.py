"""Input families shared by the property checks (DESIGN 4.3). Every random choice comes from the
`random.Random(VERIF_SEED)` handed in, so a disagreement replays exactly."""
import functools, os, sys
from concurrent.futures import ProcessPoolExecutor
sys.path.insert(0, os.path.dirname(os.path.abspath(__file__)))
from ref import mldsa as R

SETS = ('44', '65', '87')
MODES = ('pure', 'sha256', 'sha512', 'shake128')
Q = R.Q


def hx(b):
    b = bytes(b)
    return b.hex() if b else '-'


@functools.lru_cache(maxsize=256)
def keypair(s, xi):
    return R.keygen_internal(R.PARAMS[s], xi)


def seeds(rng, n):
    base = [bytes(32), bytes([0xff]) * 32, bytes([7]) * 32]
    return (base + [bytes(rng.randrange(256) for _ in range(32)) for _ in range(n)])[:n]


MSG_LENS = (0, 1, 135, 136, 137, 167, 168, 169, 1000)


def messages(rng, n):
    out = []
    for L in MSG_LENS:
        out.append(bytes(rng.randrange(256) for _ in range(L)))
    while len(out) < n:
        out.append(bytes(rng.randrange(256) for _ in range(rng.choice((3, 8, 33, 200)))))
    rng.shuffle(out)
    return out[:n] if n < len(out) else out


def contexts(rng, n):
    out = [b'', b'\x00', bytes(rng.randrange(256) for _ in range(254)), bytes(rng.randrange(256) for _ in range(255))]
    while len(out) < n:
        out.append(bytes(rng.randrange(256) for _ in range(rng.randrange(0, 256))))
    return out[:n]


def rnds(rng, n):
    out = [bytes(32), bytes([0xff]) * 32]
    while len(out) < n:
        out.append(bytes(rng.randrange(256) for _ in range(32)))
    return out[:n]


# ------------------------------------------------------------------ parallel reference evaluation
def _ref_job(job):
    kind = job[0]
    if kind == 'verify':
        _, s, pk, m, sig, ctx, mode = job
        return R.verify(R.PARAMS[s], pk, m, sig, ctx, mode)
    if kind == 'sign':
        _, s, sk, m, ctx, mode, rnd = job
        return R.sign(R.PARAMS[s], sk, m, ctx, mode, rnd)
    if kind == 'keygen':
        _, s, xi = job
        return R.keygen_internal(R.PARAMS[s], xi)
    if kind == 'forge':
        _, s, rho, t1fill, z, h, m, ctx, mode = job
        return forge(s, rho, z, h, m, ctx, mode, t1fill)
    raise ValueError(kind)


def ref_map(jobs):
    if not jobs:
        return []
    with ProcessPoolExecutor(max_workers=min(16, os.cpu_count() or 4)) as ex:
        return list(ex.map(_ref_job, jobs, chunksize=max(1, len(jobs) // 64)))


# ------------------------------------------------------------------ degenerate-key forgeries
def degenerate_pk(s, rho):
    """public key rho || 0...0 (t1 = 0): w' = A z does not depend on c, so any (z, h) can be closed forwards"""
    return bytes(rho) + bytes(R.pk_len(R.PARAMS[s]) - 32)


def forge(s, rho, z, h, m, ctx, mode, t1fill=0):
    """FIPS-204-valid-by-construction signature under pk = rho || t1 (t1 = 0): returns (pk, sig, valid?)
    valid? is what FIPS 204 Verify must answer (norm and hint-weight conditions decide it)."""
    p = R.PARAMS[s]
    pk = degenerate_pk(s, rho)
    tr = R.H(pk, 64)
    mp = R.format_message(mode, m, ctx)
    mu = R.H(tr + mp, 64)
    A = R.expand_a(p, rho)
    az = R.matvec(A, [R.ntt(x) for x in z])
    w = [R.intt(x) for x in az]
    w1 = [[R.use_hint(p, hh, r) for hh, r in zip(hp, wp)] for hp, wp in zip(h, w)]
    ct = R.H(mu + R.w1_encode(p, w1), p['lam'] // 4)
    ones = sum(sum(x) for x in h)
    if ones > p['omega']:
        return pk, None, False
    sig = R.sig_encode(p, ct, z, h)
    valid = max(abs(c) for poly in z for c in poly) < p['gamma1'] - p['beta']
    return pk, sig, valid


def _mont_reduce(a):
    """the crate's mont_reduce on exact integers (i32 wrapping multiply, arithmetic shift)"""
    def w32(x):
        x &= 0xFFFFFFFF
        return x - (1 << 32) if x >= (1 << 31) else x
    t = w32(w32(a) * 58728449)
    return (a - t * R.Q) >> 32


def limb_max_poly(bound, sgn=1):
    """polynomial with 9 non-zero coefficients, all of magnitude <= bound, whose forward transform as the crate computes it
    (no reduction between layers) leaves about sgn * (bound + 8 * q/2) in slot 0: coefficient 128 >> k is the only partner of
    slot 0 in layer k and is chosen so that its Montgomery product with that layer's zeta is as close to sgn * q/2 as its range allows"""
    z = [0] * 256
    z[0] = sgn * bound
    for k in range(8):
        zm = (R.ZETAS[1 << k] << 32) % R.Q
        zinv = pow(R.ZETAS[1 << k], R.Q - 2, R.Q)
        best = None
        for d in range(0, 4000):
            target = sgn * ((R.Q - 1) // 2 - d)
            w = R.modpm(target * zinv, R.Q)
            if abs(w) <= bound:
                t = _mont_reduce(zm * w)
                if best is None or sgn * t > sgn * best[1]:
                    best = (w, t)
                if sgn * t > (R.Q // 2) - 4200:
                    break
        z[128 >> k] = best[0] if best else 0
    return z


def rand_z(rng, p, bound):
    return [[rng.randrange(-bound, bound + 1) for _ in range(256)] for _ in range(p['l'])]


def rand_h(rng, p, weight, mode='spread'):
    h = [[0] * 256 for _ in range(p['k'])]
    if mode == 'onepoly':
        i = rng.randrange(p['k'])
        for j in rng.sample(range(256), min(weight, 256)):
            h[i][j] = 1
    else:
        cells = rng.sample([(i, j) for i in range(p['k']) for j in range(256)], weight)
        for i, j in cells:
            h[i][j] = 1
    return h


def forgery_family(rng, s, n_random=2):
    """(tag, z, h) triples hitting the accept/reject boundaries of Verify"""
    p = R.PARAMS[s]
    lim = p['gamma1'] - p['beta']          # first rejected norm
    out = []
    zero_h = [[0] * 256 for _ in range(p['k'])]
    base = rand_z(rng, p, 1000)
    def with_coeff(v, i=None, j=None):
        z = [list(x) for x in base]
        z[rng.randrange(p['l']) if i is None else i][rng.randrange(256) if j is None else j] = v
        return z
    out.append(('norm=lim-1', with_coeff(lim - 1), zero_h))
    out.append(('norm=-(lim-1)', with_coeff(-(lim - 1)), zero_h))
    out.append(('norm=lim(first rejected)', with_coeff(lim), zero_h))
    out.append(('norm=-lim', with_coeff(-lim), zero_h))
    out.append(('norm=gamma1(max encodable)', with_coeff(p['gamma1']), zero_h))
    out.append(('norm=-(gamma1-1)(min encodable)', with_coeff(-(p['gamma1'] - 1)), zero_h))
    out.append(('norm=lim-1 last coeff', with_coeff(lim - 1, p['l'] - 1, 255), zero_h))
    out.append(('norm=lim first coeff', with_coeff(lim, 0, 0), zero_h))
    for w, md in ((0, 'spread'), (1, 'spread'), (p['omega'] - 1, 'spread'), (p['omega'], 'spread'), (p['omega'], 'onepoly'), (min(p['omega'], 256), 'onepoly')):
        out.append((f'hint weight {w} {md}', rand_z(rng, p, lim - 1), rand_h(rng, p, w, md)))
    hh = [[0] * 256 for _ in range(p['k'])]
    hh[0][0] = 1; hh[p['k'] - 1][255] = 1
    out.append(('hint positions 0 and 255', rand_z(rng, p, lim - 1), hh))
    for _ in range(n_random):
        out.append(('random in-range', rand_z(rng, p, lim - 1), rand_h(rng, p, rng.randrange(0, p['omega'] + 1))))
    # responses built to push one slot of the crate's *unreduced* forward transform to its maximum (input + eight Montgomery
    # products of about q/2 each, above 4q): the envelope that to_mont / partial_reduce64 / the accumulation must cover
    for sgn in (1, -1):
        lp = limb_max_poly(lim - 1, sgn)
        z = [list(x) for x in base]
        z[0] = lp
        z[p['l'] - 1] = [-c for c in lp]
        out.append((f'NTT-limb-maximising response (slot 0 beyond {"+" if sgn > 0 else "-"}4q)', z, zero_h))
    # full-magnitude vectors (stress the lazily reduced arithmetic)
    out.append(('all coefficients = lim-1', [[lim - 1] * 256 for _ in range(p['l'])], zero_h))
    out.append(('alternating +-(lim-1)', [[(lim - 1) * (1 if (j + i) % 2 else -1) for j in range(256)] for i in range(p['l'])], zero_h))
    return out


# ------------------------------------------------------------------ malformed hint sections
def hint_section_mutations(rng, p, sig):
    """(tag, mutated signature): every class of hint-section malformation applied to a valid signature.
    FIPS 204 rejects all of them at decoding."""
    omega, k = p['omega'], p['k']
    off = len(sig) - (omega + k)
    y = bytearray(sig[off:])
    counts = list(y[omega:])
    total = counts[-1]
    out = []
    def emit(tag, yy):
        # keep only sections the FIPS 204 decoder really rejects (e.g. raising the last count is legal
        # when the last polynomial lists no index yet: it then encodes a hint at position y[total] = 0)
        if R.hint_bit_unpack(p, bytes(yy)) is None:
            out.append((tag, bytes(sig[:off]) + bytes(yy)))
    # find a polynomial with at least two hints
    starts = [0] + counts[:-1]
    multi = [i for i in range(k) if counts[i] - starts[i] >= 2]
    if multi:
        i = multi[0]; a = starts[i]
        yy = bytearray(y); yy[a], yy[a + 1] = yy[a + 1], yy[a]
        emit('swap two indices inside a polynomial (unsorted)', yy)
        yy = bytearray(y); yy[a + 1] = yy[a]
        emit('repeated index', yy)
    nonempty = [i for i in range(k) if counts[i] - starts[i] >= 1]
    if total < omega and nonempty:
        # duplicate an index into a free slot: the decoded hint *set* is unchanged, only canonicity can reject
        for i in sorted(set([nonempty[0], nonempty[-1]] + [j for j in nonempty if y[starts[j]] == 0][:2])):
            a = starts[i]
            yy = bytearray(y[:a + 1]) + bytearray([y[a]]) + bytearray(y[a + 1:omega - 1]) + bytearray(y[omega:])
            for j in range(i, k):
                yy[omega + j] += 1
            emit(f'index duplicated into a free slot (same decoded set), polynomial {i}', yy)
    if total < omega:
        for pos in sorted({total, omega - 1, (total + omega) // 2}):
            yy = bytearray(y); yy[pos] = 1 + rng.randrange(255)
            emit(f'non-zero unused byte at slot {pos}', yy)
        yy = bytearray(y); yy[omega + k - 1] = total + 1
        emit('last count one above the listed indices (reads an unused zero slot)', yy)
    if k >= 2 and counts[0] > 0:
        yy = bytearray(y); yy[omega + 1] = counts[0] - 1 if counts[1] >= counts[0] else yy[omega + 1]
        if yy != y:
            emit('count decreases', yy)
    for j in range(1, k):
        if counts[j - 1] > 0:
            yy = bytearray(y); yy[omega + j] = 0
            emit(f'count of polynomial {j} reset to zero after a non-zero count', yy)
            break
    if k >= 2 and counts[k - 2] > 0:
        yy = bytearray(y); yy[omega + k - 1] = 0
        emit('last count reset to zero after a non-zero count', yy)
    yy = bytearray(y); yy[omega + k - 1] = omega + 1
    emit('count omega+1', yy)
    yy = bytearray(y); yy[omega + k - 1] = 255
    emit('count 255', yy)
    yy = bytearray(y); yy[omega] = min(255, omega + 1)
    emit('first count above omega', yy)
    if total >= 1:
        yy = bytearray(y); yy[omega + k - 1] = total - 1
        emit('last count below the number of listed indices (leftover non-zero byte)', yy)
    return out


def adversarial_hint_sections(p):
    """(tag, y): hint sections built from scratch - index runs that stay strictly increasing as long as possible combined with count
    patterns at and beyond every bound (a count above omega in any row, totals that walk past the section, counts that fall back) -
    what a decoder that bounds only the last count, or only some rows, would walk through."""
    omega, k = p['omega'], p['k']
    runs = {'indices 0,1,2,..': [j for j in range(omega)],
            'indices 256-omega..255': [256 - omega + j for j in range(omega)],
            'indices all 0': [0] * omega, 'indices all 255': [255] * omega,
            'indices 0,2,4,..': [(2 * j) % 256 for j in range(omega)]}
    pats = {}
    for c in (0, 1, omega - 1, omega, omega + 1, omega + k - 1, omega + k, 200, 255):
        pats[f'all counts {c}'] = [c] * k
        pats[f'first count {c}, rest 0'] = [c] + [0] * (k - 1)
        pats[f'last count {c}, rest 0'] = [0] * (k - 1) + [c]
        pats[f'first count {c}, rest omega'] = [c] + [omega] * (k - 1)
    pats['first count omega+k-1, then 200+j, last 0'] = [omega + k - 1] + [200 + j for j in range(1, k - 1)] + [0]
    pats['counts omega+1.. increasing, last omega'] = [min(255, omega + 1 + j) for j in range(k - 1)] + [omega]
    pats['counts step omega/k'] = [min(255, (j + 1) * (omega // k)) for j in range(k)]
    pats['counts step omega/k then fall to 1'] = [min(255, (j + 1) * (omega // k)) for j in range(k - 1)] + [1]
    out = []
    for rt, run in runs.items():
        for pt, cnt in pats.items():
            out.append((f'{rt}; {pt}', bytes(run) + bytes(cnt)))
    return out


def constant_field_keys(s, sk):
    """(tag, key bytes, accepted?): private keys in which every s1 / s2 field holds the same code v, for every v of the field width,
    and every t0 field the same 13-bit code (both ends, the middle, bit patterns) - structurally extreme, cheap, exhaustive in v"""
    p = R.PARAMS[s]
    eta, k, l = p['eta'], p['k'], p['l']
    bl = R.bitlen(2 * eta)
    n12 = (k + l) * 256
    def pack(codes, width):
        acc = 0
        for i, c in enumerate(codes):
            acc |= c << (i * width)
        return acc.to_bytes((len(codes) * width + 7) // 8, 'little')
    out = []
    for v in range(1 << bl):
        key = bytes(sk[:128]) + pack([v] * n12, bl) + bytes(sk[128 + n12 * bl // 8:])
        out.append((f's1, s2: every field = {v}', key, v <= 2 * eta))
    for c in (0, 1, 0x0FFF, 0x1000, 0x1FFE, 0x1FFF, 0x1555, 0x0AAA):
        key = bytes(sk[:128 + n12 * bl // 8]) + pack([c] * (k * 256), 13)
        out.append((f't0: every field = {c:#06x}', key, True))
    assert all(len(kk) == len(sk) for _, kk, _ in out)
    return out


def ref_derive(p, skb):
    """pkEncode(rho, Power2Round(A s1 + s2 mod q).t1) from private-key bytes, with the reference"""
    rho, K, tr, s1, s2, t0 = R.sk_decode(p, skb)
    A = R.expand_a(p, rho)
    t = R.vadd([R.intt(x) for x in R.matvec(A, [R.ntt(x) for x in s1])], s2)
    t1 = [[R.power2round(cf % Q)[0] for cf in poly] for poly in t]
    return R.pk_encode(p, rho, t1)


def whole_poly_bad_keys(s, sk):
    """(tag, key bytes): private keys in which EVERY field of one s1 / s2 polynomial is out of range (256 bad fields: a tally kept in a
    byte wraps to zero), and the all-0xFF key"""
    p = R.PARAMS[s]
    eta, k, l = p['eta'], p['k'], p['l']
    bl = R.bitlen(2 * eta)
    plen = 32 * bl
    out = []
    for pi in sorted({0, l - 1, l, l + k - 1}):
        key = bytearray(sk)
        key[128 + pi * plen:128 + (pi + 1) * plen] = bytes([0xFF]) * plen
        out.append((f'every field of polynomial {pi} is 2^bitlen-1', bytes(key)))
        if eta == 4:
            key = bytearray(sk)
            key[128 + pi * plen:128 + (pi + 1) * plen] = bytes([0x9C]) * plen
            out.append((f'every field of polynomial {pi} alternates 12 / 9', bytes(key)))
    out.append(('all-0xFF key', bytes([0xFF]) * len(sk)))
    return out


# ------------------------------------------------------------------ private keys whose t = A s1 + s2 sits on the reduction boundary
def boundary_t_keys(rng, s, want=2, max_rho=400):
    """Accepted (dishonest) private keys for which a coefficient of NTT^-1(A s1) + s2 falls *outside* [0, q): at or above q
    (needs (A s1)_ij in [q - eta, q - 1] and s2_ij = +eta) or below 0.  s1 is c * X^0 in one polynomial, so A s1 is c times one
    column entry of A in coefficient form; rho is searched until such an entry exists (about 1% per rho).
    Returns [(tag, sk bytes, expected pk bytes)]"""
    p = R.PARAMS[s]
    eta, k, l = p['eta'], p['k'], p['l']
    out = []
    tried = 0
    while len([o for o in out if o[0].startswith('t >= q')]) < want and tried < max_rho:
        tried += 1
        rho = bytes(rng.randrange(256) for _ in range(32))
        hit = None
        for i in range(k):
            for lp in range(l):
                a = R.intt(R.rej_ntt_poly(rho + bytes([lp, i])))
                for j, v in enumerate(a):
                    for c in range(-eta, eta + 1):
                        if c and (c * v) % Q >= Q - eta:
                            hit = (i, lp, j, c, (c * v) % Q)
                            break
                    if hit:
                        break
                if hit:
                    break
            if hit:
                break
        if not hit:
            continue
        i, lp, j, c, w = hit
        s1 = [[0] * 256 for _ in range(l)]
        s1[lp][0] = c
        s2 = [[0] * 256 for _ in range(k)]
        s2[i][j] = eta                     # t_ij = w + eta >= q  (must be reduced)
        if j + 1 < 256:
            s2[i][(j + 1) % 256] = -eta    # and a neighbour that may go negative
        t0 = [[rng.randrange(-4095, 4097) for _ in range(256)] for _ in range(k)]
        K = bytes(rng.randrange(256) for _ in range(32))
        tr = bytes(rng.randrange(256) for _ in range(64))
        sk = R.sk_encode(p, rho, K, tr, s1, s2, t0)
        A = R.expand_a(p, rho)
        t = R.vadd([R.intt(x) for x in R.matvec(A, [R.ntt(x) for x in s1])], s2)
        t1 = [[R.power2round(cf)[0] for cf in poly] for poly in t]
        out.append((f't >= q before reduction (w={w}, +eta)', sk, R.pk_encode(p, rho, t1)))
    # t < 0: s1 = 0, s2 negative everywhere
    rho = bytes(rng.randrange(256) for _ in range(32))
    s1 = [[0] * 256 for _ in range(l)]
    s2 = [[-eta if (a + b) % 2 else eta for b in range(256)] for a in range(k)]
    t0 = [[0] * 256 for _ in range(k)]
    sk = R.sk_encode(p, rho, bytes(32), bytes(64), s1, s2, t0)
    t1 = [[R.power2round(cf % Q)[0] for cf in poly] for poly in s2]
    out.append(('t negative before reduction (s1 = 0, s2 = -eta)', sk, R.pk_encode(p, rho, t1)))
    # t exactly 0 before reduction: (a) s1 = 0 and s2 with zeros, ones and minus ones; (b) a cancellation (A s1)_ij = -s2_ij != 0
    s2 = [[(0, 1, -1, 0, eta, 0, -eta, 0)[(a + b) % 8] for b in range(256)] for a in range(k)]
    sk = R.sk_encode(p, rho, bytes(32), bytes(64), s1, s2, t0)
    t1 = [[R.power2round(cf % Q)[0] for cf in poly] for poly in s2]
    out.append(('t exactly 0 before reduction (s1 = 0, zeros in s2)', sk, R.pk_encode(p, rho, t1)))
    tried = 0
    while tried < max_rho:
        tried += 1
        rho = bytes(rng.randrange(256) for _ in range(32))
        hit = None
        for i in range(k):
            a = R.intt(R.rej_ntt_poly(rho + bytes([0, i])))
            for j, v in enumerate(a):
                for c in range(-eta, eta + 1):
                    w = (c * v) % Q
                    if c and (w <= eta or w >= Q - eta):
                        hit = (i, j, c, w if w <= eta else w - Q)
                        break
                if hit:
                    break
            if hit:
                break
        if not hit:
            continue
        i, j, c, w = hit
        s1 = [[0] * 256 for _ in range(l)]
        s1[0][0] = c
        s2 = [[0] * 256 for _ in range(k)]
        s2[i][j] = -w                      # t_ij = w - w = 0 with both summands non-zero
        sk = R.sk_encode(p, rho, bytes(32), bytes(64), s1, s2, t0)
        A = R.expand_a(p, rho)
        t = R.vadd([R.intt(x) for x in R.matvec(A, [R.ntt(x) for x in s1])], s2)
        assert t[i][j] % Q == 0
        t1 = [[R.power2round(cf % Q)[0] for cf in poly] for poly in t]
        out.append((f't exactly 0 by cancellation ((A s1)_ij = {w}, s2_ij = {-w})', sk, R.pk_encode(p, rho, t1)))
        break
    return out


def boundary_seeds(s, want=2, span=48000):
    """honest seeds whose t has a coefficient >= q before the final reduction (about 1e-4 per key), found by a parallel
    search inside rust_exec with the crate's own primitives (a search, not an oracle)"""
    import core
    shards = 16
    step = span // shards
    outs = core.run_stream([core.RUST['fast']], [f"find_tq {s} {i * step} {step} {want}" for i in range(shards)])
    seeds = []
    for o in outs:
        if o and o != 'none' and not o.startswith(('panic', 'harness')):
            seeds += [bytes.fromhex(x) for x in o.split(',')]
    return seeds[:want]


def steer_forgeries(rng, s):
    """(tag, z, h) under a t1 = 0 key with public seed `rho`: z is a single coefficient d * X^0 in polynomial 0, chosen so that
    one coefficient of w' = A z (in coefficient form: d * NTT^-1(A_hat[i][0])) lands on a corner of Decompose / UseHint, with
    the hint bit set there.  Returns (rho, list)."""
    p = R.PARAMS[s]
    g2 = p['gamma2']
    m = (Q - 1) // (2 * g2)
    lim = p['gamma1'] - p['beta'] - 1
    for _ in range(50):
        rho = bytes(rng.randrange(256) for _ in range(32))
        a = R.intt(R.rej_ntt_poly(rho + bytes([0, 0])))      # A[0][0] in coefficient form
        targets = [('r0 = 0, r1 = 0 (hint wraps to m-1)', 0), ('r0 = 0, r1 = 1', 2 * g2), ('r0 = 0, r1 = m-1', (m - 1) * 2 * g2), ('r0 = +gamma2', g2),
                   ('r0 = -gamma2+1', g2 + 1), ('r+ - r0 = q-1 corner', Q - 1), ('r1 = m-1, r0 > 0 (hint wraps to 0)', (m - 1) * 2 * g2 + 5), ('r0 = 1', 2 * g2 * 3 + 1), ('r0 = -1', 2 * g2 * 3 - 1)]
        out = []
        for tag, tgt in targets:
            found = None
            for n in rng.sample(range(256), 256):
                if a[n] == 0:
                    continue
                d = tgt * pow(a[n], -1, Q) % Q if tgt else None
                if tgt == 0:
                    continue
                d = R.modpm(d, Q)
                if d != 0 and abs(d) <= lim:
                    found = (n, d)
                    break
            if tgt == 0:
                # w' coefficient 0 needs d = 0 : the all-zero z gives w' = 0 everywhere
                z = [[0] * 256 for _ in range(p['l'])]
                h = [[0] * 256 for _ in range(p['k'])]
                h[0][rng.randrange(256)] = 1
                out.append((tag, z, h))
                continue
            if found is None:
                continue
            n, d = found
            z = [[0] * 256 for _ in range(p['l'])]
            z[0][0] = d
            h = [[0] * 256 for _ in range(p['k'])]
            h[0][n] = 1
            out.append((tag, z, h))
        if len(out) >= 6:
            return rho, out
    return rho, out


# ------------------------------------------------------------------ rare-event corpus (checks/mk_corpus.py, reference only)
def rare_inputs():
    import json
    path = os.path.join(os.path.dirname(os.path.dirname(os.path.abspath(__file__))), 'corpus', 'rare_inputs.json')
    try:
        return json.load(open(path))
    except OSError:
        return {'sign': {}, 'keygen65_long_rejection': []}


def rare_sign_cases(s):
    """(tag, xi, sk, pk, msg, ctx, rnd) with a FIPS signature of exactly omega hints, omega-1, an empty last / first hint polynomial"""
    d = rare_inputs()['sign'].get(s)
    if not d:
        return []
    xi = bytes.fromhex(d['xi'])
    pk, sk = keypair(s, xi)
    out = [(tag, xi, sk, pk, bytes.fromhex(m), bytes.fromhex(d['ctx']), bytes.fromhex(d['rnd'])) for tag, m in d['messages'].items()]
    # honest signatures with a coefficient of w - c s2 + c t0 on the wrap-around corner q - gamma2 of Decompose
    mc = rare_inputs().get('makehint_corner')
    if mc and s in mc['cases']:
        xi2 = bytes.fromhex(mc['xi'])
        pk2, sk2 = keypair(s, xi2)
        out.append(('makehint corner q-gamma2', xi2, sk2, pk2, bytes.fromhex(mc['cases'][s]['msg']), bytes.fromhex(mc['ctx']), bytes.fromhex(mc['cases'][s]['rnd'])))
    # attempts with more than omega hints one of which sits at coefficient 255 (a weight count that skips the last coefficient emits them)
    ow = rare_inputs().get('overweight_255')
    if ow and s in ow['cases']:
        xi3 = bytes.fromhex(ow['xi'])
        pk3, sk3 = keypair(s, xi3)
        for n in ow['cases'][s]:
            out.append((f'over-weight attempt with a hint at coefficient 255 (rnd counter {n})', xi3, sk3, pk3, bytes.fromhex(ow['msg']), b'', n.to_bytes(4, 'little') + bytes(28)))
    return out


def bucket_edge_cases(s):
    """(tag, xi, sk, pk, msg): honest signatures (empty context, rnd = 0) whose accepted attempt has a coefficient of w - c s2 + c t0 exactly on the
    Decompose bucket edge (2k+1) gamma2, one message per k (corpus/bucket_edges.json, checks/mk_corpus_edges.py)"""
    import json
    path = os.path.join(os.path.dirname(os.path.dirname(os.path.abspath(__file__))), 'corpus', 'bucket_edges.json')
    try:
        d = json.load(open(path))
    except OSError:
        return []
    xi = bytes.fromhex(d['xi'])
    pk, sk = keypair(s, xi)
    return [(f'bucket edge k={k}', xi, sk, pk, bytes.fromhex(m)) for k, m in d['cases'].get(s, {}).items()]


def extremal_t0_cases(s):
    """ML-DSA-44: a private key deserialisation accepts but key generation never returns (t0 at the ends of its range) and messages for
    which Algorithm 7 rejects an attempt on ||c t0|| >= gamma2: (tag, sk, msg, ctx, rnd)"""
    d = rare_inputs().get('extremal_t0_' + s)
    if not d:
        return []
    return [(tag, bytes.fromhex(d['sk']), bytes.fromhex(c['msg']), bytes.fromhex(d['ctx']), bytes.fromhex(d['rnd'])) for tag, c in d['cases'].items()]


def zero_sum_seeds(s):
    """honest seeds for which a coefficient of NTT^-1(A s1) + s2 is exactly 0 before the final reduction"""
    d = rare_inputs().get('zero_sum_seeds')
    return [bytes.fromhex(x) for x in d['seeds'].get(s, [])] if d else []


def rare_keygen_seeds(s):
    """seeds that hit rare sampler events: ML-DSA-65 seeds for which one RejBoundedPoly call needs more than two SHAKE256 blocks; special RejNTTPoly candidates"""
    # every set: seeds whose ExpandA meets a rare 23-bit candidate - an accepted 0 or q - 1, a rejected q or 2^23 - 1 (checks/mk_corpus_expa.py)
    out = [bytes.fromhex(x) for xs in rare_inputs().get('expand_a_special', {}).get('cases', {}).get(s, {}).values() for x in xs]
    # seeds for which one polynomial of ExpandA rejects six or more of its first 261 candidates (checks/mk_corpus_expa2.py)
    out += [bytes.fromhex(e['xi']) for e in rare_inputs().get('expand_a_many_rejections', {}).get('cases', {}).get(s, [])]
    if s == '65':
        out += [bytes.fromhex(e['xi']) for e in rare_inputs()['keygen65_long_rejection']]
    return out
