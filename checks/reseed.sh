#!/bin/bash
# usage: reseed.sh <seed-dir-name>...   re-run the property's quick check against each kept seeded change
# (applied to /repo's working tree and undone straight afterwards); prints whether each is still caught
cd /repo && git diff --quiet || { echo "repo dirty"; exit 2; }
for name in "$@"; do
  p=${name:0:3}
  git -C /repo apply /verif/seeded/$name/patch.diff || { echo "$name: PATCH DOES NOT APPLY"; continue; }
  r=$(cd /verif && timeout 1800 python3 checks/run.py $p --tier quick 2>&1 | grep -E "VIOLATION" | head -2 | tr '\n' ' ')
  git -C /repo checkout -- .
  if [ -n "$r" ]; then echo "$name: caught: ${r:0:200}"; else echo "$name: MISSED"; fi
done
cd /verif && python3 translator/gen.py > /dev/null
# the evidence files now describe runs on a changed tree: restore the committed ones
git -C /verif checkout -- evidence
