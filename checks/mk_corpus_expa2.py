#!/usr/bin/env python3
"""Adds `expand_a_many_rejections` to corpus/rare_inputs.json: key-generation seeds for which one polynomial of ExpandA has six or more rejected
candidates among its first 261 (3e-7 per polynomial: one seed in 60 000 .. 200 000): a sampler that squeezes a fixed 784-byte buffer first and
falls back to single candidates afterwards reaches its fallback only then.  hashlib only, 16 processes; inputs only.
Usage: python3 checks/mk_corpus_expa2.py [max-seeds-per-set]"""
import hashlib, json, os, sys
from multiprocessing import Pool
SETS = {'87': (8, 7), '65': (6, 5), '44': (4, 4)}
VERIF = os.path.dirname(os.path.dirname(os.path.abspath(__file__)))


def scan(args):
    s, lo, hi = args
    k, l = SETS[s]
    hits = []
    for ctr in range(lo, hi):
        xi = ctr.to_bytes(8, 'little') + b'\x77' * 24
        rho = hashlib.shake_256(xi + bytes([k, l])).digest(32)
        for r in range(k):
            for c in range(l):
                st = hashlib.shake_128(rho + bytes([c, r])).digest(783)
                rej = 0
                for i in range(2, 783, 3):
                    if st[i] & 0x7f == 0x7f and (st[i - 1] > 0xE0 or (st[i - 1] == 0xE0 and st[i - 2] >= 1)):
                        rej += 1
                if rej >= 6:
                    hits.append((xi.hex(), r, c, rej))
    return hits


def main():
    cap = int(sys.argv[1]) if len(sys.argv) > 1 else 400000
    out = {}
    with Pool(16) as pool:
        for s in SETS:
            found = []
            step = 2000
            lo = 0
            while len(found) < 2 and lo < cap:
                jobs = [(s, lo + i * step, lo + (i + 1) * step) for i in range(16)]
                for h in pool.map(scan, jobs):
                    found += h
                lo += 16 * step
            out[s] = [{'xi': x, 'row': r, 'col': c, 'rejected_among_first_261': n} for x, r, c, n in found[:3]]
            print(s, lo, out[s], flush=True)
    p = os.path.join(VERIF, 'corpus', 'rare_inputs.json')
    d = json.load(open(p))
    d['expand_a_many_rejections'] = {'note': __doc__.split('\n')[0], 'cases': out}
    json.dump(d, open(p, 'w'), indent=1)


if __name__ == '__main__':
    main()
