#!/usr/bin/env python3
"""Entry point of every registered check.

  python3 checks/run.py setup                       build everything from files on disk
  python3 checks/run.py Cxx [--tier quick|thorough] decide one property (exit 0 / exit 1 + VIOLATION line)
  python3 checks/run.py replay <path>               re-execute a replay file
Honours VERIF_SEED, VERIF_TIER, VERIF_REPO.
"""
import importlib, json, os, sys, time
sys.path.insert(0, os.path.dirname(os.path.abspath(__file__)))
import core


def main():
    args = sys.argv[1:]
    if not args:
        print(__doc__)
        return 2
    cmd = args[0]
    tier = os.environ.get('VERIF_TIER', 'quick')
    if '--tier' in args:
        tier = args[args.index('--tier') + 1]
    seed = int(os.environ.get('VERIF_SEED', '0'))
    if cmd == 'setup':
        t0 = time.time()
        tr = core.regenerate()
        if tr.get('errors'):
            print('translator errors:', tr['errors'])
        with core.Lock('build'):
            props = sorted('Fips204.Props.' + f[:-5] for f in os.listdir(os.path.join(core.LEAN, 'Fips204', 'Props')) if f.endswith('.lean'))
            rc, log = core.lake_build(['Fips204', 'model'] + props)
            print(log[-3000:] if rc else 'lake build ok')
            errs = core.cargo_build()
            print('cargo build', 'ok' if not errs else errs)
        print(f'setup done in {time.time() - t0:.0f}s')
        return 0 if rc == 0 and not errs else 1
    if cmd == 'replay':
        v = json.load(open(args[1]))
        print(json.dumps(v.get('detail'), indent=1)[:3000])
        ops = v.get('ops') or []
        if ops:
            with core.Lock('build'):
                core.cargo_build()
            outs = core.run_ops(ops)
            for i, o in enumerate(ops):
                print('op:', o[:300])
                for k in outs:
                    print(f'  {k}: {outs[k][i][:300]}')
        return 0
    if cmd.startswith('C'):
        mod = importlib.import_module('props.' + cmd.lower())
        return mod.check(tier, seed)
    print('unknown command', cmd)
    return 2


if __name__ == '__main__':
    sys.exit(main())
