"""C18 - NTT-based polynomial products equal the negacyclic product mod q; no i32 overflow (DESIGN 5 C18)."""
import random
import core, fam
from fam import R

Q = R.Q


def poly_s(p):
    return ",".join(str(x) for x in p)


def parse_polys(o):
    return [[int(x) for x in p.split(',')] for p in o.split('|')]


def sparse_pm1(rng, tau):
    c = [0] * 256
    for j in rng.sample(range(256), tau):
        c[j] = rng.choice((1, -1))
    return c


def check(tier, seed):
    rep = core.Report('C18', tier, seed)
    rng = random.Random(seed)
    b = core.prepare('C18', 'Fips204/Props/C18.lean')
    if b.cargo_errs:
        return core.finish(rep, b, 'proof', {}, ['build failed'])
    thorough = tier == 'thorough'
    cases = []
    # corpus first: the F3 witness family (pinned tree: checked build panicked, release build answered 4157441)
    for line in open(core.VERIF + '/corpus/F3.ops').read().strip().split('\n'):
        cases.append({'line': line, 'tag': 'corpus F3 witness', 'want': lambda o: None if o.startswith('4190205,0,0') else 'all-ones row times constant (q-1)/2, l = 7, must give 7(q-1)/2 mod q = 4190205 in coefficient 0', 'model': True})
    # 1. forward transform of basis polynomials x scalars: linearity then fixes the map
    basis = range(256) if thorough else sorted(set(range(0, 256, 9)) | {1, 127, 128, 255})
    for i in basis:
        for v in (1, -1, Q - 1, (Q - 1) // 2, 1 << 19):
            a = [0] * 256; a[i] = v
            want = R.ntt(a)
            cases.append({'line': f"ntt 1 e{i}:{v}", 'tag': 'ntt basis x scalar', 'model': i % 64 == 1 or thorough,
                          'want': (lambda w: (lambda o: None if not o.startswith(('panic', 'harness')) and [x % Q for x in parse_polys(o)[0]] == w else 'forward NTT differs from Algorithm 41 mod q'))(want)})
    # 2. inverse transform: exact canonical output, any unreduced input
    for tag, vec in [('constant +4q', [4 * Q] * 256), ('constant -4q', [-4 * Q] * 256), ('constant 8q', [8 * Q] * 256), ('constant 2^23', [1 << 23] * 256),
                     ('alternating +-8q', [(8 * Q) * (1 if j % 2 else -1) for j in range(256)]), ('constant 2143289343 (domain edge)', [2143289343] * 256),
                     ('constant -2143289343', [-2143289343] * 256)] + \
                    [('random within +-8q', [rng.randrange(-8 * Q, 8 * Q + 1) for _ in range(256)]) for _ in range(40 if thorough else 4)] + \
                    [('random full domain', [rng.randrange(-2143289343, 2143289344) for _ in range(256)]) for _ in range(40 if thorough else 4)]:
        want = R.intt(vec)
        cases.append({'line': f"inv_ntt 1 {poly_s(vec)}", 'tag': 'inv_ntt ' + tag, 'model': True,
                      'want': (lambda w: (lambda o: None if o == poly_s(w) else 'inverse NTT must return the exact canonical Algorithm 42 output without overflow'))(want)})
    # 3. products through the real pipeline: ntt, to_mont, pointwise Montgomery product (and accumulation), inv_ntt
    prods = []
    ranges = [('eta', 4), ('2^12', 4096), ('t1*2^d', None), ('gamma1', 1 << 19), ('tau-sparse +-1', 'c')]
    for L in (1, 4, 5, 7):
        for rt, rg in ranges:
            for rep_i in range(3 if thorough else 1):
                A, U = [], []
                for j in range(L):
                    A.append(sparse_pm1(rng, rng.choice((39, 49, 60))) if rng.random() < 0.5 else [rng.randrange(0, Q) for _ in range(256)])
                    if rg == 'c':
                        U.append(sparse_pm1(rng, 60))
                    elif rg is None:
                        U.append([(rng.randrange(0, 1024) << 13) % Q for _ in range(256)])
                    else:
                        pat = rng.choice(('rand', 'max', 'min', 'alt'))
                        U.append([rg if pat == 'max' else -rg if pat == 'min' else (rg if (j + n) % 2 else -rg) if pat == 'alt' else rng.randrange(-rg, rg + 1) for n in range(256)])
                prods.append((L, rt, A, U))
    ntt_lines = []
    for L, rt, A, U in prods:
        ntt_lines.append(f"ntt {L} " + "|".join(poly_s(x) for x in A))
        ntt_lines.append(f"ntt {L} " + "|".join(poly_s(x) for x in U))
    no = core.run_stream([core.RUST['fast']], ntt_lines)
    for i, (L, rt, A, U) in enumerate(prods):
        ah, uh = no[2 * i], no[2 * i + 1]
        if ah.startswith(('panic', 'harness')) or uh.startswith(('panic', 'harness')):
            rep.violation('implementation-vs-oracle', [ntt_lines[2 * i], ntt_lines[2 * i + 1]], {'output': ah[:100] + ' / ' + uh[:100], 'oracle': 'forward NTT must not fault'}, True)
            continue
        # matrix entries are canonical residues in the crate (RejNTTPoly): reduce the row, keep u as the lazy NTT output
        arow = "|".join(poly_s([x % Q for x in p]) for p in parse_polys(ah))
        acc = [0] * 256
        for a, u in zip(A, U):
            acc = [(s + t) % Q for s, t in zip(acc, R.schoolbook(a, u))]
        cases.append({'line': f"matvec1_invntt {L} {arow} {uh}", 'tag': f'product pipeline l={L} range {rt}', 'model': i % 3 == 0 or thorough,
                      'want': (lambda w: (lambda o: None if o == poly_s(w) else 'pipeline result must equal the schoolbook negacyclic product mod q, with no overflow'))(acc)})
    # 4. extremal NTT-domain inputs (what an adversarial response vector can reach): sign patterns at the call-site magnitude
    for L in (4, 5, 7):
        for tag, row, u in [('all-ones row, constant (q-1)/2', [1] * 256, [(Q - 1) // 2] * 256), ('all q-1 row, constant -(q-1)/2', [Q - 1] * 256, [-(Q - 1) // 2] * 256),
                            ('all-ones row, constant 4q', [1] * 256, [4 * Q] * 256), ('random row, alternating +-4q', None, [(4 * Q) * (1 if n % 2 else -1) for n in range(256)]),
                            ('random row, random +-4q', None, None)]:
            rows = [row if row is not None else [rng.randrange(0, Q) for _ in range(256)] for _ in range(L)]
            us = [u if u is not None else [rng.randrange(-4 * Q, 4 * Q + 1) for _ in range(256)] for _ in range(L)]
            acc = [0] * 256
            for a, x in zip(rows, us):
                acc = [(s + p * y) % Q for s, p, y in zip(acc, a, x)]
            want = R.intt(acc)
            cases.append({'line': f"matvec1_invntt {L} {'|'.join(poly_s(x) for x in rows)} {'|'.join(poly_s(x) for x in us)}", 'tag': 'extremal NTT-domain input: ' + tag, 'model': True,
                          'want': (lambda w: (lambda o: None if o == poly_s(w) else 'accumulate + inverse NTT must be exact and overflow-free on the adversarial envelope'))(want)})
    # 5. to_mont on its envelope
    for tag, vec in [('constant 67000000', [67000000] * 256), ('constant -67000000', [-67000000] * 256), ('random +-4.1q', [rng.randrange(-34400000, 34400001) for _ in range(256)])]:
        want = [(x << 32) % Q for x in vec]
        cases.append({'line': f"to_mont 1 {poly_s(vec)}", 'tag': 'to_mont ' + tag, 'model': True,
                      'want': (lambda w: (lambda o: None if not o.startswith(('panic', 'harness')) and [x % Q for x in parse_polys(o)[0]] == w else 'to_mont must be x*2^32 mod q'))(want)})
    core.run_and_judge(rep, cases, model_every=0)
    return core.finish(rep, b, 'proof', {
        'rule': 'basis polynomials x scalars {1, -1, q-1, (q-1)/2, 2^19}; inverse transform on constant / alternating / random unreduced vectors up to the edge of its domain; '
                'products a*b through ntt -> to_mont -> Montgomery multiply-accumulate -> inv_ntt for l in {1, 4, 5, 7} and every call-site range (eta, 2^12, t1*2^d, gamma1, tau-sparse +-1) '
                'with max / min / alternating / random sign patterns; extremal NTT-domain inputs (the F3 family); non-trivial = result compared with Algorithm 41/42 or the schoolbook product in big integers',
        'tie': 'translator (zeta table generator, F_MONT, kernels) + correspondence at hook level + implementation-vs-oracle'},
        ['checks/ref/mldsa.py: Algorithms 41, 42 and the schoolbook negacyclic product', 'congruence to the product is decided by execution, overflow-freedom of inv_ntt by theorem'])
