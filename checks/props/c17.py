"""C17 - every supported feature combination builds and behaves the same (DESIGN 5 C17). Level `other`:
finite cfg-gate model in Lean + exhaustive real builds (all 28 configurations) + known-answer digests."""
import itertools, os, random, shutil, subprocess
from concurrent.futures import ThreadPoolExecutor
import core


def configs():
    out = []
    for a, b2, c in itertools.product((1, 0), repeat=3):
        if not (a or b2 or c):
            continue
        for r in (1, 0):
            for d in (1, 0):
                out.append((a, b2, c, r, d))
    return out


def feat_list(cfg, names):
    return ",".join(n for n, on in zip(names, cfg) if on)


def check(tier, seed):
    rep = core.Report('C17', tier, seed)
    b = core.prepare('C17', 'Fips204/Props/C17.lean')
    cfgs = configs()
    assert len(cfgs) == 28
    work = os.path.join(core.WORK, 'c17')
    os.makedirs(work, exist_ok=True)
    lanes = 7
    env = dict(os.environ, CARGO_NET_OFFLINE='true')

    def lane_check(i):
        res = []
        tdir = os.path.join(work, f'chk{i}')
        for cfg in cfgs[i::lanes]:
            feats = feat_list(cfg, ('ml-dsa-44', 'ml-dsa-65', 'ml-dsa-87', 'default-rng', 'dudect'))
            r = subprocess.run(['cargo', 'check', '--manifest-path', os.path.join(core.REPO, 'Cargo.toml'), '--lib', '--offline', '--no-default-features',
                                '--features', feats, '--target-dir', tdir], capture_output=True, text=True, env=env)
            res.append((cfg, feats, r.returncode, (r.stdout + r.stderr)[-1500:]))
        return res

    with core.Lock('c17'):
        with ThreadPoolExecutor(max_workers=lanes) as ex:
            results = [x for lane in ex.map(lane_check, range(lanes)) for x in lane]
        for cfg, feats, rc, log in results:
            rep.evaluations += 1
            rep.count('cargo check (deny warnings, dead_code in force)')
            if rc != 0:
                rep.violation('implementation-vs-oracle', [f"cargo check --no-default-features --features {feats}"], {'config': feats, 'log': log, 'oracle': 'every configuration must build without warnings'}, True)
            else:
                rep.nontrivial.add(('check', feats))
        # known-answer digests: default configuration first, then the others
        dcfgs = cfgs if tier == 'thorough' else [cfgs[0]] + [c for c in cfgs if c in ((1, 0, 0, 0, 0), (0, 1, 0, 1, 0), (0, 0, 1, 0, 1), (1, 1, 0, 0, 1), (0, 1, 1, 1, 1), (1, 0, 1, 1, 0), (1, 1, 1, 0, 0))]

        def lane_digest(i):
            res = []
            tdir = os.path.join(work, f'dg{i}')
            for cfg in dcfgs[i::4]:
                feats = feat_list(cfg, ('s44', 's65', 's87', 'rng', 'dudect'))
                r = subprocess.run(['cargo', 'run', '--quiet', '--offline', '--no-default-features', '--features', feats, '--target-dir', tdir],
                                   cwd=os.path.join(core.VERIF, 'digest'), capture_output=True, text=True, env=env)
                res.append((cfg, feats, r.returncode, r.stdout, r.stderr[-1500:]))
            return res
        with ThreadPoolExecutor(max_workers=4) as ex:
            dres = [x for lane in ex.map(lane_digest, range(4)) for x in lane]
    ref = {}
    for cfg, feats, rc, out, err in dres:
        if cfg == cfgs[0]:
            ref = {l.split()[0]: ' '.join(l.split()[1:]) for l in out.strip().split('\n') if l.split() and l.split()[0] in ('44', '65', '87')}
    if len(ref) != 3:
        rep.violation('harness', ['digest default configuration'], {'note': 'default configuration digest did not run', 'out': str(dres[:1])[:500]}, False)
    for cfg, feats, rc, out, err in dres:
        rep.evaluations += 1
        rep.count('digest program per configuration')
        if rc != 0:
            rep.violation('implementation-vs-oracle', [f"digest --features {feats}"], {'config': feats, 'stderr': err, 'oracle': 'digest program must build and run in every configuration'}, True)
            continue
        got = {l.split()[0]: ' '.join(l.split()[1:]) for l in out.strip().split('\n') if l.split() and l.split()[0] in ('44', '65', '87')}
        own = [s_ for s_, v in got.items() if not v.endswith('own-signatures-rejected-or-panicked 0')]
        if own:
            rep.violation('implementation-vs-oracle', [f"digest --features {feats}"], {'config': feats, 'digests': got,
                                                                                       'oracle': 'every one of the 700 bulk signatures must be produced without panic and verify under the matching key'}, True)
            continue
        enabled = [n for n, on in zip(('44', '65', '87'), cfg[:3]) if on]
        bad = [s for s in enabled if got.get(s) != ref.get(s)] + [s for s in got if s not in enabled]
        if bad:
            rep.violation('implementation-vs-oracle', [f"digest --features {feats}"], {'config': feats, 'digests': got, 'default': ref,
                                                                                       'oracle': 'each enabled set must produce the same keys, signatures and decisions as in the default configuration'}, True)
        else:
            rep.nontrivial.add(('digest', feats))
            rep.sample(f"features={feats}: {got}")
    return core.finish(rep, b, 'other', {
        'explanation': 'Lean side: over the cfg-gate inventory regenerated from Cargo.toml and src/*.rs, for all 28 configurations (decide over the product) every gate sits on a parameter-set module, the OsRng import, '
                       'an OS-RNG convenience function, the dudect entry point or a test module; the OsRng import and its users carry the same predicate; no gate lies inside the algorithmic modules; at least one '
                       'parameter-set module is enabled. Enumerated side (not modelled: rustc lints and name resolution): all 28 configurations are really built with `cargo check` under the crate\'s own '
                       'deny(warnings, dead_code, ...), and a digest program (seeded keygen through both entry points, sign and hash-sign with fixed rnd, verify, rejected variants, derived key, round-tripped key) '
                       'is built and run per configuration and compared with the default configuration per enabled set.',
        'configurations_built': len(results), 'configurations_digested': len(dres), 'exhaustive': True,
        'rule': 'one build per configuration (28, complete); digests for ' + ('all 28' if tier == 'thorough' else '8 configurations covering every set alone / in pairs, with and without default-rng and dudect')},
        ['cargo / rustc behave deterministically offline', 'feature verif-hooks is outside the property\'s matrix'])
