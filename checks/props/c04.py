"""C04 - key generation is exactly the FIPS 204 function of the 32-byte seed (DESIGN 5 C04)."""
import random
import core, fam
from fam import R


def check(tier, seed):
    rep = core.Report('C04', tier, seed)
    rng = random.Random(seed)
    b = core.prepare('C04', 'Fips204/Props/C04.lean')
    if b.cargo_errs:
        return core.finish(rep, b, 'proof', {}, ['build failed'])
    n = 400 if tier == 'thorough' else 24
    cases = []
    jobs, idx = [], []
    for s in fam.SETS:
        for i, xi in enumerate(fam.boundary_seeds(s, 2) + fam.zero_sum_seeds(s) + fam.rare_keygen_seeds(s) + fam.seeds(rng, n)):
            jobs.append(('keygen', s, xi)); idx.append((s, xi, i))
    refs = fam.ref_map(jobs)
    for (s, xi, i), (pk, sk) in zip(idx, refs):
        cases.append({'line': f"keygen {s} {xi.hex()}", 'tag': 'keygen_from_seed == KeyGen_internal', 'want': f"{pk.hex()} {sk.hex()}", 'model': i < 2})
        cases.append({'line': f"keygen_rng {s} ok:{xi.hex()}+ok:{'ee' * 32}", 'tag': 'try_keygen_with_rng == seeded(draw)', 'want': f"ok {pk.hex()} {sk.hex()} calls=tryfill32", 'model': i == 2})
        if i < 2:
            cases.append({'line': f"keygen_s {s} {xi.hex()}", 'tag': 'struct fields (model correspondence)', 'want': None, 'model': True})
    # bulk: many more seeds against the Lean model (proved equal to Algorithm 6); a disagreement is re-judged by the Python reference.
    # Rare stored words (a negative or extremal NTT-domain precompute, one key in a few hundred) are met here.
    for s in fam.SETS:
        for t in range(3000 if tier == 'thorough' else 330):
            xs = (t * 2654435761 + seed + 1).to_bytes(8, 'little') + bytes(24)
            cases.append({'line': f"keygen {s} {xs.hex()}", 'tag': 'keygen_from_seed == model of Algorithm 6 (bulk seeds)', 'want': (lambda o: 'key generation panicked' if o.startswith('panic') else None),
                          'model': True, 'lazy_want': (lambda s=s, xs=xs: ' '.join(x.hex() for x in R.keygen_internal(R.PARAMS[s], xs)))})
    # a generator that fails - whatever error code it reports, however often - yields no key (the RNG-driven variant has no other behaviour)
    for s in fam.SETS:
        for sc in ('errbefore', 'errbefore@11+errbefore@11+errbefore@11+errbefore@11', 'errbefore@4+errbefore@4+errbefore@4', 'errafter@11:' + 'cd' * 32 + '+errafter@11:' + 'cd' * 32 + '+errafter@11:' + 'cd' * 32):
            cases.append({'line': f"keygen_rng {s} {sc}", 'tag': 'try_keygen_with_rng with a failing generator', 'want': 'err:rng calls=tryfill32', 'model': True})
    # hook level: the samplers of Algorithm 6 against the reference on fresh seeds
    for t in range(40 if tier == 'thorough' else 6):
        r34 = bytes(rng.randrange(256) for _ in range(34))
        cases.append({'line': f"rej_ntt_poly 0 {r34.hex()}", 'tag': 'rej_ntt_poly', 'want': ",".join(str(x) for x in R.rej_ntt_poly(r34)), 'model': t == 0})
        for eta in (2, 4):
            r66 = bytes(rng.randrange(256) for _ in range(66))
            cases.append({'line': f"rej_bounded_poly 0 {eta} {r66.hex()}", 'tag': f'rej_bounded_poly eta={eta}', 'want': ",".join(str(x) for x in R.rej_bounded_poly(eta, r66)), 'model': t == 0})
    # the specific RejBoundedPoly calls of the corpus seeds that need a third SHAKE256 block (eta = 4)
    for e in fam.rare_inputs().get('keygen65_long_rejection', []):
        xi = bytes.fromhex(e['xi'])
        p65 = R.PARAMS['65']
        rhop = R.H(xi + bytes([p65['k'], p65['l']]), 128)[32:96]
        r66 = rhop + bytes([e['poly'], 0])
        cases.append({'line': f"rej_bounded_poly 0 4 {r66.hex()}", 'tag': 'rej_bounded_poly eta=4 needing a third XOF block', 'want': ",".join(str(x) for x in R.rej_bounded_poly(4, r66)), 'model': True})
    core.run_and_judge(rep, cases, model_every=0)
    # the literal Lean transcription of Algorithm 6 (Spec.keyGenInternal, what keygen_is_algorithm_6_as_written is about) executed on the same seeds
    sc = []
    for s in fam.SETS:
        for xi in fam.boundary_seeds(s, 2) + fam.zero_sum_seeds(s) + fam.rare_keygen_seeds(s) + fam.seeds(rng, 60 if tier == 'thorough' else 8):
            sc.append({'rust': f"keygen {s} {xi.hex()}", 'spec': f"spec_keygen {s} {xi.hex()}", 'tag': 'keygen_from_seed == Spec.keyGenInternal executed (literal Lean transcription)', 'map': lambda o: o})
    core.spec_judge(rep, sc)
    return core.finish(rep, b, 'proof', {
        'rule': 'one case per (set, seed, entry point); seeds include all-00, all-FF and random; non-trivial = distinct seed whose output was compared byte-for-byte with the Python transcription of Algorithm 6',
        'tie': 'correspondence (struct level and byte level) + implementation-vs-oracle'},
        ['checks/ref/mldsa.py transcribes FIPS 204 Algorithm 6 (validated on the ACVP keyGen vectors by ref-selftest)',
         'theorems cover the RNG wrapper, seed split and shared fields; t = A s1 + s2 through the NTT pipeline is covered by C18 and by differential execution only'])
