"""C12 - RNG failure is reported, and all drawn randomness is used (DESIGN 5 C12)."""
import random
import core, fam
from fam import hx


def check(tier, seed):
    rep = core.Report('C12', tier, seed)
    rng = random.Random(seed)
    b = core.prepare('C12', 'Fips204/Props/C12.lean')
    if b.cargo_errs:
        return core.finish(rep, b, 'proof', {}, ['build failed'])
    xi = bytes(rng.randrange(256) for _ in range(32))
    draw = bytes(rng.randrange(256) for _ in range(32))
    msg = b'rng protocol'
    fails = ['errbefore', '-', 'errafter:' + 'aa', 'errafter:' + 'bb' * 16, 'errafter:' + 'cc' * 31, 'errafter:' + 'dd' * 32,
             'errbefore+ok:' + draw.hex(), 'errafter:' + draw.hex() + '+ok:' + draw.hex()]
    # generator errors carrying every kind of code (OS-like: EINTR 4, EAGAIN 11, EIO 5, 1, the largest OS code; internal; custom), once and
    # repeatedly: the library must report the first failure, whatever the code says, and must not ask again
    for code in (4, 11, 5, 1, 2147483647, 2147483649, 3221225472):
        fails += [f'errbefore@{code}', '+'.join([f'errbefore@{code}'] * 3), '+'.join([f'errbefore@{code}'] * 6), f'errafter@{code}:' + 'ab' * 32,
                  f'errbefore@{code}+ok:' + draw.hex(), '+'.join([f'errafter@{code}:' + draw.hex()] * 4)]
    # draws of a special form are draws like any other: all-00 (the value the deterministic variant uses), all-FF, a single set bit
    special = ['ok:' + '00' * 32, 'ok:' + 'ff' * 32, 'ok:' + '00' * 31 + '01', 'ok:' + '80' + '00' * 31, 'ok:' + '00' * 32 + '+ok:' + 'ab' * 32, 'ok:' + '00' * 32 + '+errbefore']
    oks = special + ['ok:' + draw.hex(), 'ok:' + draw.hex() + '+errbefore', 'ok:' + draw.hex() + '+ok:' + 'ff' * 32]
    want_fail = lambda o: None if o == 'err:rng calls=tryfill32' else 'a failing generator must yield Err after exactly one fallible 32-byte request (no panic, no key/signature)'
    want_ok = lambda o: None if o.startswith('ok ') and o.endswith('calls=tryfill32') else 'success must use exactly one try_fill_bytes(32) request'
    cases = []
    for s in fam.SETS:
        for sc in fails:
            cases.append({'line': f"keygen_rng {s} {sc}", 'tag': 'keygen failing script', 'want': want_fail, 'model': True})
            for mode in ('pure', 'sha256'):
                cases.append({'line': f"sign {s} {mode} gen:{xi.hex()} {hx(msg)} - {sc}", 'tag': f'{"sign" if mode == "pure" else "hash_sign"} failing script', 'want': want_fail, 'model': s == '44'})
        for sc in oks:
            cases.append({'line': f"keygen_rng {s} {sc}", 'tag': 'keygen ok script', 'want': want_ok, 'model': s == '44'})
            cases.append({'line': f"sign {s} pure gen:{xi.hex()} {hx(msg)} - {sc}", 'tag': 'sign ok script', 'want': want_ok, 'model': s == '44'})
            cases.append({'line': f"sign {s} shake128 gen:{xi.hex()} {hx(msg)} - {sc}", 'tag': 'hash_sign ok script', 'want': want_ok, 'model': False})
        # a context error must come before any randomness is requested
        cases.append({'line': f"sign {s} pure gen:{xi.hex()} {hx(msg)} {'00' * 256} errbefore", 'tag': 'ctx error precedes RNG', 'want': 'err:ctx calls=-', 'model': True})
    outs = core.run_and_judge(rep, cases, model_every=0)
    # all 256 single-bit variations of a draw give 256 different outputs (each byte influences the result)
    nsets = fam.SETS if tier == 'thorough' else ('44',)
    for s in nsets:
        for what in ('keygen_rng', 'sign', 'hash_sign'):
            lines = []
            for bit in range(-1, 256):
                d = bytearray(draw)
                if bit >= 0:
                    d[bit // 8] ^= 1 << (bit % 8)
                if what == 'keygen_rng':
                    lines.append(f"keygen_rng {s} ok:{d.hex()}")
                else:
                    lines.append(f"sign {s} {'pure' if what == 'sign' else 'sha512'} gen:{xi.hex()} {hx(msg)} - ok:{d.hex()}")
            o = core.run_stream([core.RUST['fast']], lines)
            rep.evaluations += len(lines)
            rep.count(f'{what} one-bit draw variations', len(lines))
            if len(set(o)) != len(o) or not all(x.startswith('ok ') for x in o):
                dup = [lines[i] for i in range(len(o)) if o.count(o[i]) > 1][:2]
                rep.violation('implementation-vs-oracle', dup or lines[:1], {'what': what, 'set': s, 'distinct_outputs': len(set(o)), 'expected': len(o),
                                                                              'oracle': 'every bit of the 32-byte draw must change the output'}, True)
            else:
                rep.nontrivial.add(('bits', s, what))
            # the model agrees on a sample of the variations
            idx = rng.sample(range(len(lines)), 6)
            mo = core.run_stream([core.MODEL, '--mode', 'release'], [lines[i] for i in idx])
            for i, m_ in zip(idx, mo):
                rep.corr_compared += 1
                if core.canon(m_) != core.canon(o[i]):
                    rep.violation('correspondence', [lines[i]], {'rust_fast': o[i][:200], 'model_release': m_[:200]}, False)
    # OS RNG convenience functions: two successive calls differ (sanity only; freshness is the operating system's)
    o = core.run_stream([core.RUST['fast']], [f"os_keygen 44", f"os_keygen 44", f"os_sign 44 gen:{xi.hex()} {hx(msg)}", f"os_sign 44 gen:{xi.hex()} {hx(msg)}"], shards=1)
    rep.evaluations += 4
    rep.count('OS-RNG freshness sanity', 4)
    if o[0] == o[1] or o[2] == o[3] or any(x.startswith(('panic', 'harness')) for x in o):
        rep.violation('implementation-vs-oracle', ['os_keygen 44', 'os_keygen 44'], {'outputs': [x[:80] for x in o], 'oracle': 'OS-RNG wrappers must draw fresh randomness on every call'}, True)
    return core.finish(rep, b, 'proof', {
        'rule': 'one case per (set, entry point, script); scripts cover error before writing, after 1/16/31/32 bytes, empty script, and success with unused '
                'trailing responses; plus 257 draws differing in one bit per entry point; non-trivial = the scripted generator was actually consulted',
        'tie': 'translator (Gen.rng* constants) + correspondence with a fault-injecting RngCore whose infallible methods panic'},
        ['"each byte influences the result" beyond injective dataflow into H is a property of SHAKE256 (C12_full is stated, not proved)',
         'freshness of OsRng is the operating system\'s'])
