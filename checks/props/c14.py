"""C14 - secret-independent execution in constant-time test mode (DESIGN 5 C14, 4.5, 4.6).
Lean: leak-site inventory + CTEST neutralisation theorems (source level).  Observed: exact edge and
load/store-address traces of the optimised build, equal across secrets; sensitivity controls must differ."""
import json, os, random
import core, fam

Q = 8380417
KEYS = ('edges', 'ehash', 'mem', 'mhash')


def rp(rng, lo, hi):
    return ",".join(str(rng.randrange(lo, hi + 1)) for _ in range(256))


def groups(tier, rng):
    """(name, lines, must_be_equal)"""
    n = 1000 if tier == 'thorough' else 160     # a leak on a rare secret event (a few % of seeds) needs this many draws to be seen
    G = []
    # corpus (checks/mk_corpus_ct.py): RNG outputs whose single constant-time pass puts a secret coefficient on a rare value - a Decompose corner,
    # an exact zero, a norm exactly at a rejection bound, a hint count above omega - (1e-2 .. 1e-4 per draw): a branch taken only there shows as a pair
    try:
        ct = json.load(open(os.path.join(core.VERIF, 'corpus', 'ct_corner_seeds.json')))
    except Exception:
        ct = {}
    for s in fam.SETS:
        corner = sorted({d for ds in ct.get(s, {}).get('events', {}).values() for d in ds})
        G.append((f'dudect_keygen_sign_with_rng ML-DSA-{s}: all RNG outputs', [f"t.dudect {s} 6d7367 {bytes(rng.randrange(256) for _ in range(64)).hex()}" for _ in range(n)]
                  + [f"t.dudect {s} 6d7367 {'00' * 64}", f"t.dudect {s} 6d7367 {'ff' * 64}"] + [f"t.dudect {s} 6d7367 {d}" for d in corner]
                  # RNG outputs of special form: leading / trailing zero or FF bytes in the seed half and in the rnd half (a byte-wise scan of the
                  # secret that stops early - a "is it all zero" test, a comparison - runs a different number of steps on these)
                  + [f"t.dudect {s} 6d7367 {(bytes([v]) * kz + bytes((11 * i + kz) % 255 + 1 for i in range(32 - kz))).hex()}{(bytes((7 * i) % 255 + 1 for i in range(32 - kr)) + bytes([v]) * kr).hex()}"
                     for v in (0, 255) for kz, kr in ((1, 0), (2, 0), (8, 0), (31, 0), (32, 0), (0, 1), (0, 31), (0, 32))], True))
    k = 40 if tier == 'thorough' else 6
    D = 2143289343
    G.append(('center_mod on secret coefficients', [f"t.center_mod {rp(rng, -D, D)}" for _ in range(k)] + [f"t.center_mod {','.join(['4190208'] * 256)}", f"t.center_mod {','.join(['-4190209'] * 256)}"], True))
    G.append(('full_reduce32', [f"t.full_reduce32 {rp(rng, -D, D)}" for _ in range(k)], True))
    G.append(('partial_reduce32', [f"t.partial_reduce32 {rp(rng, -D, D)}" for _ in range(k)], True))
    G.append(('mont_reduce', [f"t.mont_reduce {rp(rng, -2147483647, 2147483647)}" for _ in range(k)], True))
    G.append(('infinity_norm (iterator max over secret values)', [f"t.infinity_norm {'|'.join(rp(rng, -Q + 1, Q - 1) for _ in range(4))}" for _ in range(k)]
              + [f"t.infinity_norm {'|'.join(','.join([str(v)] * 256) for _ in range(4))}" for v in (0, 4190208, -4190208)], True))
    G.append(('is_in_range, succeeding', [f"t.is_in_range {rp(rng, -2, 2)} 2 2" for _ in range(k)], True))
    G.append(('power2round', [f"t.power2round {rp(rng, 0, Q - 1)}" for _ in range(k)], True))
    for g in (95232, 261888):
        G.append((f'decompose / high_bits / low_bits gamma2={g}', [f"t.decompose {g} {rp(rng, -Q + 1, Q - 1)}" for _ in range(k)] + [f"t.decompose {g} {','.join([str(Q - 1)] * 256)}"], True))
        G.append((f'make_hint gamma2={g}', [f"t.make_hint {g} {rp(rng, -g, g)} {rp(rng, 0, Q - 1)}" for _ in range(k)], True))
    for a, b in ((2, 2), (4, 4), (4095, 4096), (131071, 131072), (524287, 524288)):
        G.append((f'bit_pack ({a},{b})', [f"t.bit_pack {a} {b} {rp(rng, -a, b)}" for _ in range(k)], True))
    G.append(('ntt', [f"t.ntt {rp(rng, -524288, 524288)}" for _ in range(k)], True))
    G.append(('inv_ntt', [f"t.inv_ntt {rp(rng, -8 * Q, 8 * Q)}" for _ in range(k)], True))
    G.append(('to_mont', [f"t.to_mont {rp(rng, -34000000, 34000000)}" for _ in range(k)], True))
    G.append(('mat_vec_mul', [f"t.mat_vec_mul {'|'.join(rp(rng, 0, Q - 1) for _ in range(4))} {'|'.join(rp(rng, -34000000, 34000000) for _ in range(4))}" for _ in range(k)], True))
    hint = lambda w: '|'.join(','.join('1' if j in pos else '0' for j in range(256)) for pos in [set(rng.sample(range(256), w)) for _ in range(4)])
    G.append(('hint_bit_pack with CTEST', [f"t.hint_pack 1 {hint(rng.randrange(0, 20))}" for _ in range(k)], True))
    # sensitivity controls: the tracer must be able to see a difference where the source says there is one
    G.append(('CONTROL normal keygen+sign (rejection sampling on) differs between seeds', [f"t.normal 44 6d7367 {bytes(rng.randrange(256) for _ in range(64)).hex()}" for _ in range(4)], False))
    bad = lambda pos: ','.join('3' if j == pos else '0' for j in range(256))
    G.append(('CONTROL is_in_range failing at different positions', [f"t.is_in_range {bad(3)} 2 2", f"t.is_in_range {bad(200)} 2 2"], False))
    G.append(('CONTROL hint_bit_pack without CTEST', [f"t.hint_pack 0 {hint(2)}", f"t.hint_pack 0 {hint(19)}"], False))
    return G


def check(tier, seed):
    rep = core.Report('C14', tier, seed)
    rng = random.Random(seed)
    b = core.prepare('C14', 'Fips204/Props/C14.lean')
    with core.Lock('trace'):
        err = core.trace_build()
    if err:
        b.cargo_errs['trace'] = err
        return core.finish(rep, b, 'proof', {}, ['trace build failed'])
    G = groups(tier, rng)
    lines = [l for _, ls, _ in G for l in ls]
    outs = core.trace_run(lines)
    if outs is None:
        rep.violation('harness', lines[:1], {'note': 'trace_exec did not answer every line'}, False)
        return core.finish(rep, b, 'proof', {}, [])
    pos = 0
    for name, ls, equal in G:
        res = outs[pos:pos + len(ls)]
        pos += len(ls)
        rep.evaluations += len(ls)
        rep.count(name, len(ls))
        sigs = [tuple(r.get(k) for k in KEYS) for r in res]
        distinct = set(sigs)
        if equal and len(distinct) > 1:
            # re-run the first differing pair in a fresh process: a real leak is deterministic
            i = next(j for j in range(1, len(sigs)) if sigs[j] != sigs[0])
            again = core.trace_run([ls[0], ls[i]]) or [{}, {}]
            a2 = [tuple(r.get(k) for k in KEYS) for r in again]
            if a2[0] != a2[1]:
                rep.violation('implementation-vs-oracle', [ls[0], ls[i]], {'group': name, 'trace_a': res[0], 'trace_b': res[i],
                                                                          'oracle': 'edge and load/store-address traces must be identical for every secret'}, True)
            else:
                rep.notes.append(f'{name}: one transient difference, not reproducible in a fresh process; ignored')
                rep.nontrivial.add(name)
        elif not equal and len(distinct) < 2:
            rep.violation('harness', ls[:2], {'group': name, 'traces': res[:2], 'note': 'sensitivity control: the tracer cannot see a difference that the source has; the observation is blind'}, False)
        else:
            rep.nontrivial.add(name)
            rep.sample(f"{name}: {len(ls)} inputs -> {'1 trace' if equal else str(len(distinct)) + ' distinct traces'} {res[0]}", limit=12)
    return core.finish(rep, b, 'proof', {
        'rule': 'one group per (entry point or kernel, public parameters); inputs inside a group differ only in secret data (RNG output / coefficient vectors); all inputs of a group run in one process and '
                'their (edge count, edge-sequence hash, access count, (load|store, size, address)-sequence hash) must be identical; three control groups must differ; non-trivial = group verdict reached',
        'tie': 'translator (leak-site inventory of every constant-time-scope function) + exact trace observation of the optimised, fully instrumented build',
        'groups': len(G)},
        ['a source-level model cannot exhibit what rustc/LLVM emit; the compiled half is observed (sanitizer-coverage edge + load/store callbacks on fips204, sha3, keccak, rand_core and the harness), not proved',
         'the classification of variables as public per function (translator table CT_SCOPE) is part of the trusted base'])
