"""C02 - verification accepts exactly what FIPS 204 Verify accepts (DESIGN 5 C02)."""
import random
import core, fam
from fam import hx, R


def build_cases(tier, rng):
    """returns (line, tag, ref_job, expect) with expect None = ask the reference"""
    out = []
    for s in fam.SETS:
        p = R.PARAMS[s]
        xi = bytes(rng.randrange(256) for _ in range(32))
        pk, sk = fam.keypair(s, xi)
        pkh = pk.hex()
        msg = bytes(rng.randrange(256) for _ in range(rng.choice((0, 5, 200))))
        ctx = bytes(rng.randrange(256) for _ in range(rng.choice((0, 3, 255))))
        for mode in fam.MODES + ('internal',):
            sig = R.sign(p, sk, msg, ctx, mode, bytes(32))
            def add(tag, sg, m=msg, c=ctx, md=mode, pkb=pk, expect=None):
                out.append((f"verify {s} {md} bytes:{pkb.hex()} {hx(m)} {hx(c)} {sg.hex()}", tag, ('verify', s, pkb, m, sg, c, md), expect))
            add('honest signature', sig, expect=True)
            if mode in ('pure', 'sha512', 'internal') or tier == 'thorough':
                # commitment-hash mismatch, response and hint sections: one flipped bit each
                lam4 = p['lam'] // 4
                zlen = p['l'] * 32 * (1 + R.bitlen(p['gamma1'] - 1))
                for tag, pos in (('flip in c-tilde', rng.randrange(0, lam4 * 8)), ('flip in z', lam4 * 8 + rng.randrange(0, zlen * 8)),
                                 ('flip in hint section', (lam4 + zlen) * 8 + rng.randrange(0, (p['omega'] + p['k']) * 8)), ('flip last bit', len(sig) * 8 - 1)):
                    sg = bytearray(sig); sg[pos // 8] ^= 1 << (pos % 8)
                    add(tag, bytes(sg))
                add('wrong message', sig, m=msg + b'x')
                if len(ctx) < 255:
                    add('wrong context', sig, c=ctx + b'\x00')
                add('context of 256 bytes', sig, c=bytes(256), expect=False)
                add('context of 300 bytes', sig, c=bytes(rng.randrange(256) for _ in range(300)), expect=False)
                add('random signature bytes', bytes(rng.randrange(256) for _ in range(len(sig))))
                pk2 = bytearray(pk); pk2[rng.randrange(len(pk2))] ^= 0x10
                add('flipped public key', sig, pkb=bytes(pk2))
            if mode == 'pure':
                for tag, sg in fam.hint_section_mutations(rng, p, sig):
                    add('malformed hint: ' + tag, sg, expect=False)
                # hint sections built from scratch (long increasing index runs x count patterns beyond every bound) behind the honest c~ and z
                off = len(sig) - (p['omega'] + p['k'])
                for tag, y in fam.adversarial_hint_sections(p):
                    add('crafted hint section: ' + tag.split('; ')[1], bytes(sig[:off]) + y)
        # degenerate-key forgeries: accept side and reject side of every boundary
        rho = bytes(rng.randrange(256) for _ in range(32))
        fmsg = b'forged'
        # malformed hint sections of a forged signature whose hint touches coefficient 0 and 255 of every polynomial
        # (index 0 is where an "is the previous index zero" style shortcut would go wrong)
        hz = [[1 if j in (0, 255) else 0 for j in range(256)] for _ in range(p['k'])]
        fpk0, fsig0, ok0 = fam.forge(s, rho, fam.rand_z(rng, p, 1000), hz, fmsg, b'', 'pure')
        if fsig0 is not None:
            out.append((f"verify {s} pure bytes:{fpk0.hex()} {hx(fmsg)} - {fsig0.hex()}", 'forgery with hints at coefficients 0 and 255 of every polynomial', ('verify', s, fpk0, fmsg, fsig0, b'', 'pure'), ok0))
            for tag, sg in fam.hint_section_mutations(rng, p, fsig0):
                out.append((f"verify {s} pure bytes:{fpk0.hex()} {hx(fmsg)} - {sg.hex()}", 'malformed hint (forged, index 0 present): ' + tag, ('verify', s, fpk0, fmsg, sg, b'', 'pure'), False))
            # w' = A z does not depend on the challenge under this key: a changed byte of c~ can only be caught by the final comparison,
            # so a comparison over a prefix / whole words / a subset of the commitment hash accepts one of these
            lam4 = p['lam'] // 4
            for bi in range(lam4):
                sg = bytearray(fsig0); sg[bi] ^= 1 << (bi % 8)
                out.append((f"verify {s} pure bytes:{fpk0.hex()} {hx(fmsg)} - {bytes(sg).hex()}", 'forgery with one changed byte of c-tilde (challenge-independent key)', ('verify', s, fpk0, fmsg, bytes(sg), b'', 'pure'), False))
        # the same for a forged signature whose hints sit in the first polynomial only (empty interior and last polynomials: a decoder
        # that treats a zero count as "nothing to do" accepts a count reset to zero there)
        he = [[1 if (i == 0 and j in (3, 7)) else 0 for j in range(256)] for i in range(p['k'])]
        fpk1, fsig1, ok1 = fam.forge(s, rho, fam.rand_z(rng, p, 1000), he, fmsg, b'', 'pure')
        if fsig1 is not None:
            out.append((f"verify {s} pure bytes:{fpk1.hex()} {hx(fmsg)} - {fsig1.hex()}", 'forgery with hints in the first polynomial only', ('verify', s, fpk1, fmsg, fsig1, b'', 'pure'), ok1))
            for tag, sg in fam.hint_section_mutations(rng, p, fsig1):
                out.append((f"verify {s} pure bytes:{fpk1.hex()} {hx(fmsg)} - {sg.hex()}", 'malformed hint (forged, empty later polynomials): ' + tag, ('verify', s, fpk1, fmsg, sg, b'', 'pure'), False))
        # steered forgeries: one coefficient of w' = A z exactly on a Decompose / UseHint corner, hint bit set there
        srho, steered = fam.steer_forgeries(rng, s)
        for tag, z, h in steered:
            fpk, fsig, valid = fam.forge(s, srho, z, h, fmsg, b'', 'pure')
            if fsig is not None:
                out.append((f"verify {s} pure bytes:{fpk.hex()} {hx(fmsg)} - {fsig.hex()}", 'steered forgery: ' + tag, ('verify', s, fpk, fmsg, fsig, b'', 'pure'), valid))
        for tag, z, h in fam.forgery_family(rng, s, n_random=6 if tier == 'thorough' else 1):
            md = rng.choice(('pure', 'sha256', 'internal'))
            fpk, fsig, valid = fam.forge(s, rho, z, h, fmsg, b'c', md)
            if fsig is None:
                continue
            out.append((f"verify {s} {md} bytes:{fpk.hex()} {hx(fmsg)} {hx(b'c')} {fsig.hex()}", 'forgery under t1=0: ' + tag, ('verify', s, fpk, fmsg, fsig, b'c', md), valid))
    return out


def check(tier, seed):
    rep = core.Report('C02', tier, seed)
    rng = random.Random(seed)
    b = core.prepare('C02', 'Fips204/Props/C02.lean')
    if b.cargo_errs:
        return core.finish(rep, b, 'proof', {}, ['build failed'])
    raw = build_cases(tier, rng)
    refs = fam.ref_map([j for _, _, j, _ in raw])
    cases = []
    # the challenge the verifier derives from a commitment hash: hashes whose SampleInBall consumes unusually many candidate bytes (corpus)
    for s in fam.SETS:
        p = R.PARAMS[s]
        for e in fam.rare_inputs().get('sib_long', {}).get('cases', {}).get(s, []):
            ct = bytes.fromhex(e['c_tilde'])
            cases.append({'line': f"sample_in_ball 0 {p['tau']} {ct.hex()}", 'tag': 'sample_in_ball on a long rejection run [hook]', 'want': ",".join(str(x) for x in R.sample_in_ball(p, ct)), 'model': True})
    for i, ((line, tag, job, expect), r) in enumerate(zip(raw, refs)):
        if expect is not None and bool(r) != bool(expect):
            rep.notes.append(f'generator self-check failed for {tag}: reference says {r}, construction says {expect}')
            rep.violation('harness', [line], {'tag': tag, 'reference': r, 'construction': expect}, False)
            continue
        cases.append({'line': line, 'tag': tag + (' [accept]' if r else ' [reject]'), 'want': 'true' if r else 'false',
                      'model': ('forgery' in tag) or ('malformed' in tag and i % 3 == 0) or i % 9 == 0})
    core.run_and_judge(rep, cases, model_every=0)
    # the literal Lean transcription of Algorithm 8 (Spec.verifyInternal on the key bytes: what verification_is_fips_204_algorithm_8_as_written is
    # about) executed on the formatted message M' (built here), against the crate's decision, on a sample of every family above
    sc = []
    for i, (line, tag, job, expect) in enumerate(raw):
        _, s, pkb, m, sg, c, md = job
        if len(c) > 255 or len(sg) != R.sig_len(R.PARAMS[s]) or len(pkb) != R.pk_len(R.PARAMS[s]):
            continue
        if not (i % (3 if tier == 'thorough' else 11) == 0 or 'steered' in tag or 'norm' in tag):
            continue
        mp = m if md == 'internal' else R.format_message(md, m, c)
        sc.append({'rust': line, 'spec': f"spec_verify {s} {pkb.hex()} {hx(mp)} {sg.hex()}", 'tag': 'verify == Spec.verifyInternal executed (literal Lean transcription)', 'map': lambda o: o})
    core.spec_judge(rep, sc)
    acc = sum(1 for c in cases if c['want'] == 'true')
    return core.finish(rep, b, 'proof', {
        'accepting_cases': acc, 'rejecting_cases': len(cases) - acc,
        'rule': 'honest signatures in all five interfaces; one-bit changes in each section; every class of hint-section malformation applied to a valid signature; context lengths 256 and 300; '
                'forged signatures under a public key with t1 = 0 (valid by construction) with the response norm one below / at the bound in both signs, hint weight 0, 1, omega-1, omega, positions 0 and 255, '
                'extremal-magnitude responses; non-trivial = the FIPS 204 reference decided the case and the crate was asked the same question',
        'tie': 'translator (guards, constants) + correspondence + implementation-vs-oracle'},
        ['checks/ref/mldsa.py transcribes FIPS 204 Algorithms 3, 5, 8 (validated on the ACVP sigVer vectors by ref-selftest)',
         'Lean: verify_internal = Algorithm 8 with exact arithmetic for every input (Props/C02b); the Python transcription is the independent oracle for the decisions'])
