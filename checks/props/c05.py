"""C05 - any single-bit change invalidates a signature (DESIGN 5 C05). Exploration over *every* bit position
of sampled valid tuples on the crate itself, plus the proved partial theorems."""
import random
import core, fam
from fam import hx, R


def check(tier, seed):
    rep = core.Report('C05', tier, seed)
    rng = random.Random(seed)
    b = core.prepare('C05', 'Fips204/Props/C05.lean')
    if b.cargo_errs:
        return core.finish(rep, b, 'proof', {}, ['build failed'])
    ntuples = 12 if tier == 'thorough' else 1
    for s in fam.SETS:
        p = R.PARAMS[s]
        for t in range(ntuples):
            xi = bytes(rng.randrange(256) for _ in range(32))
            pk, sk = fam.keypair(s, xi)
            mode = fam.MODES[(t + fam.SETS.index(s)) % 4]
            msg = bytes(rng.randrange(256) for _ in range(11))
            ctx = bytes(rng.randrange(256) for _ in range(5))
            if t % 3 == 2:
                # a forged tuple under the degenerate key: dense hint section, response near the bound
                z = fam.rand_z(rng, p, p['gamma1'] - p['beta'] - 1)
                h = fam.rand_h(rng, p, p['omega'])
                pk, sig, _ = fam.forge(s, bytes(32), z, h, msg, ctx, mode)
            else:
                sig = R.sign(p, sk, msg, ctx, mode, bytes(rng.randrange(256) for _ in range(32)))
            base = f"verify {s} {mode} bytes:{pk.hex()} {hx(msg)} {hx(ctx)} {sig.hex()}"
            lines, tags = [base], ['unmodified tuple']
            for i in range(len(sig) * 8):
                x = bytearray(sig); x[i // 8] ^= 1 << (i % 8)
                lines.append(f"verify {s} {mode} bytes:{pk.hex()} {hx(msg)} {hx(ctx)} {x.hex()}"); tags.append('sig bit')
            for i in range(len(pk) * 8):
                x = bytearray(pk); x[i // 8] ^= 1 << (i % 8)
                lines.append(f"verify {s} {mode} bytes:{x.hex()} {hx(msg)} {hx(ctx)} {sig.hex()}"); tags.append('pk bit')
            for i in range(len(msg) * 8):
                x = bytearray(msg); x[i // 8] ^= 1 << (i % 8)
                lines.append(f"verify {s} {mode} bytes:{pk.hex()} {hx(x)} {hx(ctx)} {sig.hex()}"); tags.append('msg bit')
            for i in range(len(ctx) * 8):
                x = bytearray(ctx); x[i // 8] ^= 1 << (i % 8)
                lines.append(f"verify {s} {mode} bytes:{pk.hex()} {hx(msg)} {hx(x)} {sig.hex()}"); tags.append('ctx bit')
            outs = core.run_stream([core.RUST['fast']], lines)
            rep.evaluations += len(lines)
            for l, tg, o in zip(lines, tags, outs):
                rep.count(tg)
                want = 'true' if tg == 'unmodified tuple' else 'false'
                if o != want:
                    rep.violation('implementation-vs-oracle', [l], {'tag': tg, 'output': o, 'oracle': f'must be {want}'}, True)
                else:
                    rep.nontrivial.add((s, t, tg, len(rep.nontrivial)))
            rep.sample(f"[{s} {mode}] {len(lines) - 1} single-bit variants of one valid tuple, all rejected; e.g. {lines[1][:90]}...")
            # the checked build and the model agree on a 1/512 sample of the flips (incl. the hint-count and padding bytes)
            hint_off = (len(sig) - p['omega'] - p['k']) * 8
            idx = sorted(set(rng.sample(range(1, len(lines)), max(8, len(lines) // 512)) + [1 + hint_off + 8 * j for j in range(0, p['omega'] + p['k'], 7)] + [len(sig) * 8, len(sig) * 8 - 1]))
            sub = [lines[i] for i in idx]
            rc = core.run_stream([core.RUST['checked']], sub)
            mc = core.run_stream([core.MODEL, '--mode', 'checked'], sub)
            for l, a, m_ in zip(sub, rc, mc):
                rep.corr_compared += 1
                if a != 'false':
                    rep.violation('implementation-vs-oracle', [l], {'profile': 'checked', 'output': a, 'oracle': 'must be false'}, True)
                elif core.canon(a) != core.canon(m_):
                    rep.violation('correspondence', [l], {'rust_checked': a, 'model_checked': m_[:200]}, False)
    # --- lengths at which tr || M' (64 + 2 + |ctx| + |M| bytes) ends just before, on and just after a SHAKE256 block boundary (136 bytes): the
    # signature is the crate's own for that tuple, and every bit of the last two and of the first message byte is flipped (an absorb path that
    # mishandles a full block, or drops a tail, accepts one of these; the signer shares the path, so a reference signature would not show it)
    totals = [t for k in (1, 2, 3) for t in range(136 * k - 66 - 3, 136 * k - 66 + 4)]
    for si, s in enumerate(fam.SETS):
        xi = bytes(rng.randrange(256) for _ in range(32))
        pk, sk = fam.keypair(s, xi)
        tuples = []
        for t in totals:
            for cl in ((0, t // 3) if (t + si) % 2 else (t // 2,)):
                tuples.append((bytes((13 * i + t) % 256 for i in range(t - cl)), bytes((29 * i + t) % 256 for i in range(cl))))
        souts = core.run_stream([core.RUST['fast']], [f"sign {s} pure bytes:{sk.hex()} {hx(m)} {hx(c)} ok:{'00' * 32}" for m, c in tuples])
        lines, tags = [], []
        for (m, c), so in zip(tuples, souts):
            if not so.startswith('ok '):
                rep.violation('implementation-vs-oracle', [f"sign {s} pure bytes:{sk.hex()} {hx(m)} {hx(c)} ok:{'00' * 32}"], {'output': so[:200], 'oracle': 'signing must succeed'}, True)
                continue
            sg = so.split()[1]
            lines.append(f"verify {s} pure bytes:{pk.hex()} {hx(m)} {hx(c)} {sg}"); tags.append('unmodified tuple (block-boundary length)')
            for bi in sorted(set([0, len(m) - 2, len(m) - 1])):
                for bit in range(8):
                    x = bytearray(m); x[bi] ^= 1 << bit
                    lines.append(f"verify {s} pure bytes:{pk.hex()} {hx(x)} {hx(c)} {sg}"); tags.append('msg bit (block-boundary length)')
            if c:
                for bit in range(8):
                    x = bytearray(c); x[-1] ^= 1 << bit
                    lines.append(f"verify {s} pure bytes:{pk.hex()} {hx(m)} {hx(x)} {sg}"); tags.append('ctx bit (block-boundary length)')
        outs = core.run_stream([core.RUST['fast']], lines)
        rep.evaluations += len(lines)
        for l, tg, o in zip(lines, tags, outs):
            rep.count(tg)
            want = 'true' if tg.startswith('unmodified') else 'false'
            if o != want:
                rep.violation('implementation-vs-oracle', [l], {'tag': tg, 'output': o, 'oracle': f'must be {want}'}, True)
            else:
                rep.nontrivial.add((tg, hash(l)))
    # --- the longest context and a multi-block message: every bit of both (the framing of M' has its own boundaries: 255-byte context,
    # SHAKE256 rate 136), honest signatures in a pure and a pre-hash mode
    for s in fam.SETS:
        p = R.PARAMS[s]
        xi = bytes(rng.randrange(256) for _ in range(32))
        pk, sk = fam.keypair(s, xi)
        for mode, cl, ml in (('pure', 255, 137), (fam.MODES[1 + fam.SETS.index(s)], 255, 1), ('pure', 254, 0)):
            msg = bytes(rng.randrange(256) for _ in range(ml))
            ctx = bytes(rng.randrange(256) for _ in range(cl))
            sig = R.sign(p, sk, msg, ctx, mode, bytes(32))
            lines, tags = [f"verify {s} {mode} bytes:{pk.hex()} {hx(msg)} {hx(ctx)} {sig.hex()}"], ['unmodified tuple']
            for i in range(len(msg) * 8):
                x = bytearray(msg); x[i // 8] ^= 1 << (i % 8)
                lines.append(f"verify {s} {mode} bytes:{pk.hex()} {hx(x)} {hx(ctx)} {sig.hex()}"); tags.append('msg bit (long context)')
            for i in range(len(ctx) * 8):
                x = bytearray(ctx); x[i // 8] ^= 1 << (i % 8)
                lines.append(f"verify {s} {mode} bytes:{pk.hex()} {hx(msg)} {hx(x)} {sig.hex()}"); tags.append('ctx bit (long context)')
            # dropping or appending a byte at the end of the context / message is a change of many bits, but the same framing boundary
            lines.append(f"verify {s} {mode} bytes:{pk.hex()} {hx(msg)} {hx(ctx[:-1])} {sig.hex()}"); tags.append('ctx truncated by one byte')
            lines.append(f"verify {s} {mode} bytes:{pk.hex()} {hx(msg + bytes(1))} {hx(ctx)} {sig.hex()}"); tags.append('msg extended by one byte')
            outs = core.run_stream([core.RUST['fast']], lines)
            rep.evaluations += len(lines)
            for l, tg, o in zip(lines, tags, outs):
                rep.count(tg)
                want = 'true' if tg == 'unmodified tuple' else 'false'
                if o != want:
                    rep.violation('implementation-vs-oracle', [l], {'tag': tg, 'output': o, 'oracle': f'must be {want}'}, True)
                else:
                    rep.nontrivial.add((s, mode, tg, len(rep.nontrivial)))
    # --- constructed hint shapes (valid forgeries under the t1 = 0 key): every bit of the hint section and its count bytes.
    # Shapes whose malleability, if any, hides in the padding: a last polynomial holding only index 0 (a repeated index 0 is then
    # indistinguishable from padding), a first polynomial holding only index 0, index 0 everywhere, index 255, no hint at all.
    for s in fam.SETS:
        p = R.PARAMS[s]
        k, om = p['k'], p['omega']
        def hv(spec):
            h = [[0] * 256 for _ in range(k)]
            for i, idxs in spec.items():
                for j in idxs:
                    h[i][j] = 1
            return h
        shapes = [('last polynomial = {0}, others two hints', {0: [3, 7], k - 1: [0]}), ('only hint: last polynomial {0}', {k - 1: [0]}),
                  ('first polynomial = {0}', {0: [0], 1: [5]}), ('index 0 in every polynomial', {i: [0] for i in range(k)}),
                  ('index 255 in the last polynomial', {k - 1: [255]}), ('no hint', {}), ('last polynomial = {0, 1}', {k - 1: [0, 1]}),
                  ('middle polynomial = {0}, later ones empty', {k // 2: [0]})]
        for tag, spec in shapes:
            msg = bytes(rng.randrange(256) for _ in range(9))
            ctx = bytes(rng.randrange(256) for _ in range(3))
            z = fam.rand_z(rng, p, 50)
            pk, sig, _ = fam.forge(s, bytes(32), z, hv(spec), msg, ctx, 'pure')
            base = f"verify {s} pure bytes:{pk.hex()} {hx(msg)} {hx(ctx)} {sig.hex()}"
            lines, tags = [base], ['unmodified tuple']
            for i in range((len(sig) - om - k) * 8, len(sig) * 8):
                x = bytearray(sig); x[i // 8] ^= 1 << (i % 8)
                lines.append(f"verify {s} pure bytes:{pk.hex()} {hx(msg)} {hx(ctx)} {x.hex()}"); tags.append('hint-section bit (constructed shape)')
            outs = core.run_stream([core.RUST['fast']], lines)
            rep.evaluations += len(lines)
            for l, tg, o in zip(lines, tags, outs):
                rep.count(tg)
                want = 'true' if tg == 'unmodified tuple' else 'false'
                if o != want:
                    rep.violation('implementation-vs-oracle', [l], {'tag': tg, 'shape': tag, 'output': o, 'oracle': f'must be {want}'}, True)
                else:
                    rep.nontrivial.add((s, tag, tg, len(rep.nontrivial)))
        rep.sample(f"[{s}] {len(shapes)} constructed hint shapes x every bit of the hint section, all rejected")
        # --- the response section: a forged tuple whose first response polynomial cycles through the special coefficient values (0, +-1, powers of
        # two, both ends of the accepted range) - every bit of every field of that polynomial must matter (two encodings of one coefficient,
        # e.g. the field of +gamma1 read as 0, show here)
        lim = p['gamma1'] - p['beta'] - 1
        vals = [0, 1, -1, 2, -2, lim, -lim, 1 << 10, -(1 << 10), (1 << 16), -(1 << 16), 0, 3, -3, lim - 1, 0]
        zz = fam.rand_z(rng, p, 50)
        zz[0] = [vals[j % len(vals)] for j in range(256)]
        msgz = bytes(rng.randrange(256) for _ in range(7))
        pkz, sigz, okz = fam.forge(s, bytes(32), zz, hv({0: [9]}), msgz, b'', 'pure')
        zbits = 1 + R.bitlen(p['gamma1'] - 1)
        off = p['lam'] // 4 * 8
        lines, tags = [f"verify {s} pure bytes:{pkz.hex()} {hx(msgz)} - {sigz.hex()}"], ['unmodified tuple']
        for i in range(off, off + 256 * zbits):
            x = bytearray(sigz); x[i // 8] ^= 1 << (i % 8)
            lines.append(f"verify {s} pure bytes:{pkz.hex()} {hx(msgz)} - {x.hex()}"); tags.append('response-field bit (special coefficient values)')
        outs = core.run_stream([core.RUST['fast']], lines)
        rep.evaluations += len(lines)
        for l, tg, o in zip(lines, tags, outs):
            rep.count(tg)
            want = 'true' if tg == 'unmodified tuple' else 'false'
            if o != want:
                rep.violation('implementation-vs-oracle', [l], {'tag': tg, 'output': o, 'oracle': f'must be {want}'}, True)
            else:
                rep.nontrivial.add((s, tg, len(rep.nontrivial)))
        # --- under the t1 = 0 key w' = A z does not depend on the challenge, so a flipped commitment-hash bit changes nothing but the
        # comparison itself: every bit of c~ must matter (a comparison over a prefix, a subset or whole words only is exposed here)
        msg = bytes(rng.randrange(256) for _ in range(9))
        z = fam.rand_z(rng, p, 50)
        pk, sig, _ = fam.forge(s, bytes(32), z, hv({0: [1], k - 1: [2]}), msg, b'', 'pure')
        lines, tags = [f"verify {s} pure bytes:{pk.hex()} {hx(msg)} - {sig.hex()}"], ['unmodified tuple']
        for i in range(p['lam'] // 4 * 8):
            x = bytearray(sig); x[i // 8] ^= 1 << (i % 8)
            lines.append(f"verify {s} pure bytes:{pk.hex()} {hx(msg)} - {x.hex()}"); tags.append('c-tilde bit (challenge-independent key)')
        outs = core.run_stream([core.RUST['fast']], lines)
        rep.evaluations += len(lines)
        for l, tg, o in zip(lines, tags, outs):
            rep.count(tg)
            want = 'true' if tg == 'unmodified tuple' else 'false'
            if o != want:
                rep.violation('implementation-vs-oracle', [l], {'tag': tg, 'output': o, 'oracle': f'must be {want}'}, True)
            else:
                rep.nontrivial.add((s, tg, len(rep.nontrivial)))
    return core.finish(rep, b, 'proof', {
        'exhaustive': True,
        'rule': 'for each sampled valid tuple, every single-bit position of the signature, public key, message and context (exhaustive per tuple; tuple count is the sample); '
                'non-trivial = distinct (tuple, position) whose mutated tuple was rejected by the crate',
        'tie': 'property oracle on the crate (no model needed) + correspondence on a sample of the flips'},
        ['Lean (Props/C05b): a second accepted tuple differing in the hint section, the (context, message, mode) interpretation or the public-key string is an explicit collision of the hash oracle; '
         'flips inside c-tilde and z are rejected only up to SHAKE256 collision resistance and the size of A*delta; those parts are exploration, not proof'])
