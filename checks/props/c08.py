"""C08 - signature and polynomial encodings are canonical (DESIGN 5 C08)."""
import itertools, random
import core, fam
from fam import hx, R

PAIRS = [(2, 2), (4, 4), (4095, 4096), (0, 1023), ((1 << 17) - 1, 1 << 17), ((1 << 19) - 1, 1 << 19), (0, 43), (0, 15)]


def poly_s(p):
    return ",".join(str(x) for x in p)


def check(tier, seed):
    rep = core.Report('C08', tier, seed)
    rng = random.Random(seed)
    b = core.prepare('C08', 'Fips204/Props/C08.lean')
    if b.cargo_errs:
        return core.finish(rep, b, 'proof', {}, ['build failed'])
    thorough = tier == 'thorough'
    cases = []
    # 1. accepted signatures re-encode to the same bytes; every malformed hint section is rejected by the decoder
    sigs = []
    for s in fam.SETS:
        p = R.PARAMS[s]
        xi = bytes(rng.randrange(256) for _ in range(32))
        pk, sk = fam.keypair(s, xi)
        honest = R.sign(p, sk, b'canonical', b'', 'pure', bytes(32))
        sigs.append((s, 'honest', honest))
        for tag, z, h in fam.forgery_family(rng, s, n_random=8 if thorough else 1):
            _, fs, _ = fam.forge(s, bytes(32), z, h, b'm', b'', 'pure')
            if fs is not None:
                sigs.append((s, 'forged: ' + tag, fs))
        for tag, sg in fam.hint_section_mutations(rng, p, honest):
            cases.append({'line': f"sig_decode {s} {sg.hex()}", 'tag': 'malformed hint section: ' + tag.split(',')[0].split('(')[0].strip(), 'want': 'err', 'model': True})
        # hint sections built from scratch behind the honest c~ and z: the reference decoder decides
        off = len(honest) - (p['omega'] + p['k'])
        for tag, y in fam.adversarial_hint_sections(p):
            if R.hint_bit_unpack(p, y) is None:
                cases.append({'line': f"sig_decode {s} {(bytes(honest[:off]) + y).hex()}", 'tag': 'crafted hint section: ' + tag.split('; ')[1], 'want': 'err', 'model': 'last 0' in tag})
            else:
                sigs.append((s, 'crafted hint section accepted by FIPS 204: ' + tag.split('; ')[1], bytes(honest[:off]) + y))
        dense = [x for x in sigs if x[0] == s and 'hint weight' in x[1]]
        for _, tg, sg in dense[:3]:
            for tag, sg2 in fam.hint_section_mutations(rng, p, sg):
                cases.append({'line': f"sig_decode {s} {sg2.hex()}", 'tag': 'malformed hint section (dense): ' + tag.split(',')[0].split('(')[0].strip(), 'want': 'err', 'model': False})
    dl = [f"sig_decode {s} {sg.hex()}" for s, _, sg in sigs]
    do = core.run_ops(dl)
    for (s, tag, sg), line, oc, of, mc, mr in zip(sigs, dl, do['rust_checked'], do['rust_fast'], do['model_checked'], do['model_release']):
        rep.evaluations += 1
        rep.corr_compared += 2
        if not oc.startswith('ok ') or oc != of:
            rep.violation('implementation-vs-oracle', [line], {'tag': tag, 'output': oc[:120], 'oracle': 'a FIPS 204 valid signature must decode'}, True)
            continue
        if core.canon(oc) != core.canon(mc) or core.canon(of) != core.canon(mr):
            rep.violation('correspondence', [line], {'tag': tag, 'rust': oc[:120], 'model': mc[:120]}, False)
            continue
        _, c, z, h = oc.split(' ')
        cases.append({'line': f"sig_encode {s} 0 {c} {z} {h}", 'tag': 'decode then re-encode: ' + tag.split(':')[0], 'want': sg.hex(), 'model': True})
    # 2. coefficient packing is a bijection at each (a, b) the crate uses
    for a, bb in PAIRS:
        c = R.bitlen(a + bb)
        exact = a + bb + 1 == 1 << c
        vecs = [[bb] * 256, [-a] * 256, [(-a if j % 2 else bb) for j in range(256)], [0] * 256,
                [rng.randrange(-a, bb + 1) for _ in range(256)], [(bb - j) if bb - j >= -a else -a for j in range(256)], [(-a + j) if -a + j <= bb else bb for j in range(256)]]
        simple = a == 0      # the (0, b) pairs are SimpleBitPack / SimpleBitUnpack (Algorithms 16, 18): w is stored, not b - w
        pk_op = (lambda w: f"simple_bit_pack {bb} {poly_s(w)}") if simple else (lambda w: f"bit_pack {a} {bb} {poly_s(w)}")
        up_op = (lambda v: f"simple_bit_unpack {bb} {v.hex()}") if simple else (lambda v: f"bit_unpack {a} {bb} {v.hex()}")
        rpack = (lambda w: R.simple_bit_pack(w, bb)) if simple else (lambda w: R.bit_pack(w, a, bb))
        runpack = (lambda v: R.simple_bit_unpack(v, bb)) if simple else (lambda v: R.bit_unpack(v, a, bb))
        for w in vecs:
            enc = rpack(w)
            cases.append({'line': pk_op(w), 'tag': f'pack ({a},{bb})', 'want': enc.hex(), 'model': True})
            cases.append({'line': up_op(enc), 'tag': f'unpack after pack ({a},{bb})', 'want': 'ok ' + poly_s(w), 'model': True})
        for t in range(6 if thorough else 2):
            v = bytes(rng.randrange(256) for _ in range(32 * c))
            w = runpack(v)
            inr = all(-a <= x <= bb for x in w)
            cases.append({'line': up_op(v), 'tag': f'unpack random bytes ({a},{bb})', 'want': ('ok ' + poly_s(w)) if inr else 'err', 'model': True})
            if exact:
                cases.append({'line': pk_op(w), 'tag': f'pack after unpack ({a},{bb}) [a+b+1 = 2^c]', 'want': v.hex(), 'model': False})
    # 3. exhaustive small-parameter hint sections: every byte string over an alphabet that realises every comparison outcome
    small = [(1, 1), (1, 2), (2, 2), (2, 3), (3, 2)] if thorough else [(1, 2), (2, 2), (2, 3)]
    for k, om in small:
        pp = {'omega': om, 'k': k}
        idx_alpha = (0, 1, 2, 3, 254, 255)
        cnt_alpha = tuple(range(0, om + 2)) + (255,)
        for y in itertools.product(*([idx_alpha] * om + [cnt_alpha] * k)):
            yb = bytes(y)
            h = R.hint_bit_unpack(pp, yb)
            if h is None:
                want = 'err'
            else:
                want = 'ok ' + "|".join(poly_s(x) for x in h)
                # canonical: what decodes must re-encode to itself
                assert R.hint_bit_pack(pp, h) == yb
            cases.append({'line': f"hint_unpack {k} {om} {yb.hex()}", 'tag': f'exhaustive hint sections k={k} omega={om} ' + ('accepted' if h is not None else 'rejected'), 'want': want, 'model': True})
            if h is not None:
                cases.append({'line': f"hint_pack 0 {k} {om} " + "|".join(poly_s(x) for x in h), 'tag': f'hint_pack of decoded hint k={k} omega={om}', 'want': yb.hex(), 'model': True})
    # 4. key codecs
    for s in fam.SETS:
        p = R.PARAMS[s]
        pk, sk = fam.keypair(s, bytes(rng.randrange(256) for _ in range(32)))
        cases.append({'line': f"pk_decode {s} {pk.hex()}", 'tag': 'pk_decode', 'want': None, 'model': True})
        cases.append({'line': f"sk_decode {s} {sk.hex()}", 'tag': 'sk_decode', 'want': None, 'model': True})
        rho, t1 = R.pk_decode(p, pk)
        cases.append({'line': f"pk_encode {s} {rho.hex()} " + "|".join(poly_s(x) for x in t1), 'tag': 'pk_encode after pk_decode', 'want': pk.hex(), 'model': True})
        w1 = [[rng.randrange(0, (R.Q - 1) // (2 * p['gamma2'])) for _ in range(256)] for _ in range(p['k'])]
        cases.append({'line': f"w1_encode {s} " + "|".join(poly_s(x) for x in w1), 'tag': 'w1_encode', 'want': R.w1_encode(p, w1).hex(), 'model': True})
        # structurally extreme commitments: every coefficient the same value (each end, and each bit pattern of the field), one polynomial differing
        m1 = (R.Q - 1) // (2 * p['gamma2']) - 1
        for v in sorted({0, 1, m1 - 1, m1, m1 // 2, 0b0101 & m1 | (0b010000 if m1 > 15 else 0), 0b1010}):
            if v > m1:
                continue
            w1c = [[v] * 256 for _ in range(p['k'])]
            cases.append({'line': f"w1_encode {s} " + "|".join(poly_s(x) for x in w1c), 'tag': 'w1_encode constant', 'want': R.w1_encode(p, w1c).hex(), 'model': v in (0, m1)})
            w1d = [[v] * 256 for _ in range(p['k'])]
            w1d[-1] = [(m1 - v)] * 256
            cases.append({'line': f"w1_encode {s} " + "|".join(poly_s(x) for x in w1d), 'tag': 'w1_encode constant, last polynomial different', 'want': R.w1_encode(p, w1d).hex(), 'model': False})
    core.run_and_judge(rep, cases, model_every=0)
    return core.finish(rep, b, 'proof', {
        'exhaustive': False,
        'rule': 'valid signatures (honest and forged, hint weight 0..omega) decoded and re-encoded; every class of hint-section malformation; coefficient vectors at and around the range ends for each '
                '(a,b) in use, and random byte strings per (a,b); all hint-section strings over the alphabet {0,1,2,3,254,255} x counts {0..omega+1,255} for reduced (k, omega); key codecs; '
                'non-trivial = bytes / coefficient vectors compared exactly with the FIPS 204 bit-level reference',
        'tie': 'correspondence (crate = model on every case) + implementation-vs-oracle'},
        ['checks/ref/mldsa.py implements Algorithms 9-21 at the bit level (IntegerToBits/BitsToBytes), independent of the streaming accumulators of the crate'])
