"""C01 - honest signatures always verify: all modes, sets, key provenances (DESIGN 5 C01)."""
import random
import core, fam
from fam import hx, R

SK_SRC = ('gen', 'rt')
PK_SRC = ('gen', 'rt', 'der:gen', 'der:rt')


def check(tier, seed):
    rep = core.Report('C01', tier, seed)
    rng = random.Random(seed)
    b = core.prepare('C01', 'Fips204/Props/C01.lean')
    if b.cargo_errs:
        return core.finish(rep, b, 'proof', {}, ['build failed'])
    n = 4000 if tier == 'thorough' else 160
    sign_lines, meta = [], []
    for s in fam.SETS:
        xis = fam.seeds(rng, 6 if tier == 'quick' else 40) + fam.boundary_seeds(s, 2) + fam.zero_sum_seeds(s)[:1]   # + seeds whose t needs the final reduction / has a coefficient exactly 0
        msgs = fam.messages(rng, 12)
        ctxs = fam.contexts(rng, 8)
        rr = fam.rnds(rng, 6)
        for i in range(n):
            xi = xis[i % len(xis)]
            mode = fam.MODES[i % 4]
            m, c, r = msgs[(i // 4) % len(msgs)], ctxs[(i // 3) % len(ctxs)], rr[(i // 5) % len(rr)]
            ss = SK_SRC[(i // 2) % 2]
            ps = PK_SRC[(i // 4) % 4]
            sign_lines.append(f"sign {s} {mode} {ss}:{xi.hex()} {hx(m)} {hx(c)} ok:{r.hex()}")
            meta.append((s, mode, ss, ps, xi, m, c, i))
    # rare events of Algorithm 7 (corpus): exactly omega hints, omega - 1, an empty last / first hint polynomial; all key provenances
    for s in fam.SETS:
        for j, (tag, xi, sk, pk, m, c, r) in enumerate(fam.rare_sign_cases(s)):
            for mode in ('pure', 'shake128'):
                ss = SK_SRC[j % 2]
                ps = PK_SRC[(j + (mode == 'pure')) % 4]
                sign_lines.append(f"sign {s} {mode} {ss}:{xi.hex()} {hx(m)} {hx(c)} ok:{r.hex()}")
                meta.append((s, mode, ss, ps, xi, m, c, 10 ** 6))
    # one honest signature per Decompose bucket edge of w - c s2 + c t0 (corpus): a signer / verifier pair that round differently there disagree
    for s in fam.SETS:
        for j, (tag, xi, sk, pk, m) in enumerate(fam.bucket_edge_cases(s)):
            sign_lines.append(f"sign {s} pure gen:{xi.hex()} {hx(m)} - ok:{'00' * 32}")
            meta.append((s, 'pure', 'gen', PK_SRC[j % 4], xi, m, b'', 10 ** 6))
    souts = core.run_stream([core.RUST['fast']], sign_lines)
    cases = []
    for (s, mode, ss, ps, xi, m, c, i), line, o in zip(meta, sign_lines, souts):
        rep.evaluations += 1
        if not o.startswith('ok '):
            rep.violation('implementation-vs-oracle', [line], {'output': o[:200], 'oracle': 'signing with an honest key and a context of at most 255 bytes must succeed'}, True)
            continue
        sig = o.split()[1]
        cases.append({'line': f"verify {s} {mode} {ps}:{xi.hex()} {hx(m)} {hx(c)} {sig}", 'tag': f'{mode} sk={ss} pk={ps}', 'want': 'true',
                      'model': i < 8, 'sign': line})
    outs = core.run_and_judge(rep, cases, model_every=0)
    # the model signs too (a sample): its signature must verify on the crate and equal the crate's
    sample = [l for l in sign_lines[:6]] + [l for l in sign_lines[n:n + 3]] + [l for l in sign_lines[2 * n:2 * n + 3]]
    mo = core.run_stream([core.MODEL, '--mode', 'checked'], sample)
    ro = core.run_stream([core.RUST['checked']], sample)
    for l, a, b2 in zip(sample, ro, mo):
        rep.corr_compared += 1
        if core.canon(a) != core.canon(b2):
            rep.violation('correspondence', [l], {'rust_checked': a[:200], 'model_checked': b2[:200]}, False)
    return core.finish(rep, b, 'proof', {
        'rule': 'one round trip per (set, seed, mode, message, context, rnd, sk provenance in {generated, round-tripped}, pk provenance in {generated, round-tripped, derived from either}); '
                'non-trivial = signing succeeded and the signature was presented to verification under the stated provenance pair',
        'tie': 'correspondence + property oracle verify(sign(..)) = true on the crate'},
        ['Lean (Props/C01c): sign_then_verify - for every oracle, seed, message, context, pre-hash, rnd, build mode and parameter set, whenever the model of sign_internal returns a signature under the generated private key, '
         'the model of verify_internal returns true under the generated / deserialised / derived public key; also at the level of try_sign_with_rng / verify and the hash variants. '
         'The theorem is about the hand-written model of the crate (tied to the source by the translator for constants, tables and decision expressions and by the correspondence run for behaviour) '
         'with the hash functions an arbitrary oracle and the rejection loop bounded by fuel * l <= 65535; verify(sign(..)) = true is also run on the crate itself on every run'])
