"""C16 - key material is erased when keys are dropped (DESIGN 5 C16). Level `other`: thin declaration model +
layout arithmetic in Lean, and observation of the bytes of the object's storage after an in-place drop."""
import random, re
import core, fam
from fam import R


def check(tier, seed):
    rep = core.Report('C16', tier, seed)
    rng = random.Random(seed)
    b = core.prepare('C16', 'Fips204/Props/C16.lean')
    if b.cargo_errs:
        return core.finish(rep, b, 'other', {'explanation': 'harness build failed'}, ['build failed'])
    nseeds = 100 if tier == 'thorough' else 3
    lines, meta = [], []
    for s in fam.SETS:
        p = R.PARAMS[s]
        want_sk = 128 + 1024 * (p['l'] + 2 * p['k'])
        want_pk = 96 + 1024 * p['k']
        for xi in fam.seeds(rng, nseeds):
            sk = fam.keypair(s, xi)[1]
            pk = fam.keypair(s, xi)[0]
            for src in (f"gen:{xi.hex()}", f"rt:{xi.hex()}", f"bytes:{sk.hex()}"):
                lines.append(f"drop_check {s} sk {src}"); meta.append(('sk ' + src.split(':')[0], want_sk))
            for src in (f"gen:{xi.hex()}", f"rt:{xi.hex()}", f"bytes:{pk.hex()}", f"der:gen:{xi.hex()}"):
                lines.append(f"drop_check {s} pk {src}"); meta.append(('pk ' + src.split(':')[0], want_pk))
        # keys one of whose stored NTT-domain polynomials has a coefficient exactly 0 (about one key in 2000; found by search, see
        # seeded/C16b-*): a drop glue that inspects the content before wiping must not skip them
        for n in {'44': (2176, 24521), '65': (3725, 2751), '87': (434, 466)}[s]:
            xi = n.to_bytes(4, 'little') + bytes(28)
            skz, pkz = fam.keypair(s, xi)[1], fam.keypair(s, xi)[0]
            for src in (f"gen:{xi.hex()}", f"bytes:{skz.hex()}"):
                lines.append(f"drop_check {s} sk {src}"); meta.append(('sk zero-coefficient ' + src.split(':')[0], want_sk))
            for src in (f"gen:{xi.hex()}", f"bytes:{pkz.hex()}"):
                lines.append(f"drop_check {s} pk {src}"); meta.append(('pk zero-coefficient ' + src.split(':')[0], want_pk))
        # deserialised keys whose leading fields are all-zero / all-FF (a drop glue that looks at the content must not skip them)
        plen = R.pk_len(p)
        for tag, pkb in (('rho=0', bytes(32) + bytes(rng.randrange(256) for _ in range(plen - 32))), ('all-00', bytes(plen)), ('all-FF', bytes([0xff]) * plen)):
            lines.append(f"drop_check {s} pk bytes:{pkb.hex()}"); meta.append(('pk bytes ' + tag, want_pk))
        sk0 = fam.keypair(s, bytes(32))[1]
        sk_special = [('rho=0', bytes(32) + sk0[32:]), ('rho=K=tr=0', bytes(128) + sk0[128:]), ('K=FF', sk0[:32] + bytes([0xff]) * 32 + sk0[64:])]
        # each byte-string field separately at a special value while the others stay secret (a wipe skipped on a "blank" or sentinel field shows only then)
        for fname, a, b_ in (('K', 32, 64), ('tr', 64, 128)):
            for vname, fill in (('00', lambda n: bytes(n)), ('FF', lambda n: bytes([0xff]) * n), ('00..01', lambda n: bytes(n - 1) + b'\x01')):
                sk_special.append((f'{fname}={vname}', sk0[:a] + fill(b_ - a) + sk0[b_:]))
        sk_special.append(('rho=FF', bytes([0xff]) * 32 + sk0[32:]))
        sk_special.append(('s1=s2=0 (fields all eta)', sk0[:128] + R.sk_encode(p, sk0[:32], sk0[32:64], sk0[64:128], [[0] * 256] * p['l'], [[0] * 256] * p['k'], [[1] * 256] * p['k'])[128:]))
        for tag, skb in sk_special:
            lines.append(f"drop_check {s} sk bytes:{skb.hex()}"); meta.append(('sk bytes ' + tag, want_sk))
    for prof in ('fast', 'checked'):
        outs = core.run_stream([core.RUST[prof]], lines)
        for l, (tag, want), o in zip(lines, meta, outs):
            rep.evaluations += 1
            rep.count(f'{prof} {tag}')
            m = re.fullmatch(r'size=(\d+) nonzero_before=(\d+) nonzero_after=(\d+)(?: at_offset=\d+)?', o)
            if not m:
                rep.violation('implementation-vs-oracle', [l], {'profile': prof, 'output': o[:200], 'oracle': 'drop_check must run'}, True)
                continue
            size, before, after = map(int, m.groups())
            if after != 0:
                rep.violation('implementation-vs-oracle', [l], {'profile': prof, 'output': o, 'oracle': 'every byte of the dropped key object must read zero'}, True)
            elif size != want:
                rep.violation('implementation-vs-oracle', [l], {'profile': prof, 'output': o, 'oracle': f'size_of must equal the model layout {want} (no padding, no extra field)'}, True)
            elif before < size // 3 and 'all-00' not in tag and 's1=s2=0' not in tag:
                rep.violation('harness', [l], {'profile': prof, 'output': o, 'note': 'object was not populated before the drop: observation is blind'}, False)
            else:
                rep.nontrivial.add((prof, l))
        rep.sample(f"{lines[0]} -> {outs[0]}")
    return core.finish(rep, b, 'other', {
        'explanation': 'Lean side: over the declaration inventory regenerated from src/types.rs, every struct reachable from the key types derives Zeroize and ZeroizeOnDrop, skips no field, has only '
                       'u8 / i32 / struct-array leaves, and for all K, L the fields tile the object (size = sum of field sizes = 128 + 1024 (l + 2k) resp. 96 + 1024 k, a multiple of the alignment 8), '
                       'so no byte lies outside a zeroised field. Observed side (not modelled: the zeroize derive, the compiler): each key object is moved into ManuallyDrop in a heap slot, dropped in place, '
                       'and all size_of bytes are read back with volatile reads, at each of the eight placements 0, 8, .., 56 bytes from a 64-byte boundary: zero non-zero bytes after the drop, size_of equal to the model layout, in both build profiles, for generated / round-tripped / '
                       'deserialised / derived keys of all three sets.',
        'rule': 'one observation per (profile, set, key type, provenance, seed); non-trivial = the object held at least size/3 non-zero bytes before the drop',
        'exhaustive': False},
        ['the zeroize crate and derive behave as documented (observed, not proved)', 'reading the storage after ManuallyDrop::drop is the observation method; the allocation is not reused in between'])
