"""C06 - signatures are bound to context, mode and pre-hash function (DESIGN 5 C06)."""
import random
import core, fam
from fam import hx, R


def check(tier, seed):
    rep = core.Report('C06', tier, seed)
    rng = random.Random(seed)
    b = core.prepare('C06', 'Fips204/Props/C06.lean')
    if b.cargo_errs:
        return core.finish(rep, b, 'proof', {}, ['build failed'])
    nstr = 40 if tier == 'thorough' else 3
    cases = []
    for s in fam.SETS:
        p = R.PARAMS[s]
        xi = bytes(rng.randrange(256) for _ in range(32))
        pk, sk = fam.keypair(s, xi)
        for k in range(nstr):
            ctx = bytes(rng.randrange(256) for _ in range(rng.choice((0, 1, 3, 7))))
            msg = bytes(rng.randrange(256) for _ in range(rng.choice((1, 4, 9))))
            for mode in fam.MODES:
                sig = R.sign(p, sk, msg, ctx, mode, bytes(32))
                base = f"bytes:{pk.hex()}"
                cases.append({'line': f"verify {s} {mode} {base} {hx(msg)} {hx(ctx)} {sig.hex()}", 'tag': 'intended interpretation verifies', 'want': 'true', 'model': k == 0 and mode == 'pure'})
                # every other split of ctx || msg
                whole = ctx + msg
                for cut in range(0, min(len(whole), 255) + 1):
                    c2, m2 = whole[:cut], whole[cut:]
                    if (c2, m2) == (ctx, msg):
                        continue
                    cases.append({'line': f"verify {s} {mode} {base} {hx(m2)} {hx(c2)} {sig.hex()}", 'tag': 'other split of ctx||msg', 'want': 'false', 'model': cut == 0 and k == 0})
                # every other mode on the same (msg, ctx)
                for other in fam.MODES + ('internal',):
                    if other != mode:
                        cases.append({'line': f"verify {s} {other} {base} {hx(msg)} {hx(ctx)} {sig.hex()}", 'tag': 'other mode / other pre-hash', 'want': 'false', 'model': k == 0 and other == 'sha256'})
                # the formatted message M' itself presented as a *message* to the external interfaces (only the internal interface takes M' as it is):
                # with the empty context, with the signed context, in every mode
                mp = R.format_message(mode, msg, ctx)
                for vm in fam.MODES:
                    for c3 in ((b'',) if ctx == b'' else (b'', ctx)):
                        cases.append({'line': f"verify {s} {vm} {base} {hx(mp)} {hx(c3)} {sig.hex()}", 'tag': "the formatted message M' presented as a message", 'want': 'false', 'model': k == 0 and vm == 'pure'})
                # crafted mimicry: present the other mode's formatted tail as a pure message (and conversely)
                if mode != 'pure':
                    tail = R.OIDS[mode] + R.prehash(mode, msg)
                    cases.append({'line': f"verify {s} pure {base} {hx(tail)} {hx(ctx)} {sig.hex()}", 'tag': 'pure message mimicking OID||PH(M)', 'want': 'false', 'model': k == 0})
                    cases.append({'line': f"verify {s} internal {base} {hx(bytes([1, len(ctx)]) + ctx + tail)} - {sig.hex()}", 'tag': 'internal interface given the exact M\' (positive control)', 'want': 'true', 'model': False})
                else:
                    cases.append({'line': f"verify {s} internal {base} {hx(bytes([0, len(ctx)]) + ctx + msg)} - {sig.hex()}", 'tag': 'internal interface given the exact M\' (positive control)', 'want': 'true', 'model': False})
                    for hm in ('sha256', 'sha512', 'shake128'):
                        # a hash-mode verification whose OID||digest cannot equal the pure message
                        cases.append({'line': f"verify {s} {hm} {base} {hx(msg[len(R.OIDS[hm]):])} {hx(ctx)} {sig.hex()}", 'tag': 'hash mode on a pure signature', 'want': 'false', 'model': False})
    # mimicry inside a pre-hash mode: the message OID(PH) || PH(M) (or OID || any digest-length string) is an ordinary message there and
    # must be hashed like any other; a signature for M must not verify for it, nor the other way round, for the same or another pre-hash
    for s in fam.SETS:
        p = R.PARAMS[s]
        xi = bytes(rng.randrange(256) for _ in range(32))
        pk, sk = fam.keypair(s, xi)
        base = f"bytes:{pk.hex()}"
        ctx = b'c6'
        msg = bytes(rng.randrange(256) for _ in range(19))
        for mode in ('sha256', 'sha512', 'shake128'):
            sig_m = R.sign(p, sk, msg, ctx, mode, bytes(32))
            for oidmode in ('sha256', 'sha512', 'shake128'):
                for tag, mim in (('OID || PH(M)', R.OIDS[oidmode] + R.prehash(oidmode, msg)),
                                 ('OID || random digest-length bytes', R.OIDS[oidmode] + bytes(rng.randrange(256) for _ in range(len(R.prehash(oidmode, b''))))),
                                 ('OID alone', R.OIDS[oidmode]), ('OID || PH(M) || one more byte', R.OIDS[oidmode] + R.prehash(oidmode, msg) + b'\x00')):
                    cases.append({'line': f"verify {s} {mode} {base} {hx(mim)} {hx(ctx)} {sig_m.hex()}", 'tag': f'pre-hash mode given the message {tag}: signature for M', 'want': 'false', 'model': s == '44' and mode == oidmode})
                    sig_x = R.sign(p, sk, mim, ctx, mode, bytes(32))        # what FIPS 204 signs for that message
                    cases.append({'line': f"verify {s} {mode} {base} {hx(mim)} {hx(ctx)} {sig_x.hex()}", 'tag': f'pre-hash mode given the message {tag}: its own FIPS signature', 'want': 'true', 'model': False})
                    cases.append({'line': f"verify {s} {mode} {base} {hx(msg)} {hx(ctx)} {sig_x.hex()}", 'tag': f'pre-hash mode: signature for {tag} presented for M', 'want': 'false', 'model': False})
    # long messages whose length is a multiple of typical chunk sizes (4 KiB, 64 KiB, 128 KiB) and one more / one less: a pre-hash that is fed
    # in pieces must absorb every byte - a signature for the message must not verify when its last byte (or last 64 KiB) changes, nor for its prefix
    for s in fam.SETS:
        p = R.PARAMS[s]
        xi = bytes(rng.randrange(256) for _ in range(32))
        pk, sk = fam.keypair(s, xi)
        base = f"bytes:{pk.hex()}"
        mode = fam.MODES[1 + fam.SETS.index(s)]
        for ln in ((4096, 65536, 65537, 131072) if tier == 'quick' else (4096, 8192, 65535, 65536, 65537, 131072, 196608)):
            big = bytes((i * 7 + ln) % 251 for i in range(ln))
            sig = R.sign(p, sk, big, b'', mode, bytes(32))
            cases.append({'line': f"verify {s} {mode} {base} {hx(big)} - {sig.hex()}", 'tag': f'long message ({mode}): its FIPS signature verifies', 'want': 'true', 'model': ln == 65536})
            last = bytearray(big); last[-1] ^= 1
            cases.append({'line': f"verify {s} {mode} {base} {hx(bytes(last))} - {sig.hex()}", 'tag': 'long message: last byte changed', 'want': 'false', 'model': False})
            first = bytearray(big); first[0] ^= 0x80
            cases.append({'line': f"verify {s} {mode} {base} {hx(bytes(first))} - {sig.hex()}", 'tag': 'long message: first byte changed', 'want': 'false', 'model': False})
            cases.append({'line': f"verify {s} {mode} {base} {hx(big[:-1])} - {sig.hex()}", 'tag': 'long message: truncated by one byte', 'want': 'false', 'model': False})
            if ln % 65536 == 0:
                cases.append({'line': f"verify {s} {mode} {base} {hx(big[:ln - 65536])} - {sig.hex()}", 'tag': 'long message: last 64 KiB dropped', 'want': 'false', 'model': False})
                sig0 = R.sign(p, sk, big[:ln - 65536], b'', mode, bytes(32))
                cases.append({'line': f"verify {s} {mode} {base} {hx(big)} - {sig0.hex()}", 'tag': 'long message: signature for the message without its last 64 KiB', 'want': 'false', 'model': False})
    # splits that put 256 or more bytes into the context: the one-byte length field would wrap (256 -> 0, 257 -> 1, 65536 -> 0 ...)
    for s in fam.SETS:
        p = R.PARAMS[s]
        xi = bytes(rng.randrange(256) for _ in range(32))
        pk, sk = fam.keypair(s, xi)
        base = f"bytes:{pk.hex()}"
        for n in (256, 257, 300, 511, 512, 65536, 65537, 131072):
            x = bytes(rng.randrange(256) for _ in range(n))
            m = b'tail'
            short = x[:n % 256]
            for mode in ('pure', 'sha256'):
                sig = R.sign(p, sk, x[n % 256:] + m, short, mode, bytes(32))      # valid for (ctx = first n mod 256 bytes, message = rest)
                cases.append({'line': f"verify {s} {mode} {base} {hx(x[n % 256:] + m)} {hx(short)} {sig.hex()}", 'tag': 'long split: the signed interpretation verifies', 'want': 'true', 'model': False})
                cases.append({'line': f"verify {s} {mode} {base} {hx(m)} {hx(x)} {sig.hex()}", 'tag': f'long split: context of {n} bytes whose length byte wraps', 'want': 'false', 'model': n in (256, 65536)})
    core.run_and_judge(rep, cases, model_every=0)
    return core.finish(rep, b, 'proof', {
        'rule': 'for each signed (set, mode, ctx, msg): every split of ctx||msg, every other mode and pre-hash, crafted mimicry of the other mode\'s formatted tail; '
                'non-trivial = alternative interpretation differs from the signed one and reached verification with a well-formed signature',
        'tie': 'translator (domain bytes, length byte, OIDs, digest lengths) + correspondence'},
        ['a cross-acceptance would exhibit a SHAKE256 / pre-hash collision (theorem different_interpretations_format_differently)'])
