"""C15 - coefficient arithmetic is exact on its whole domain (DESIGN 5 C15).

Deciding method: Lean theorems about the *translated* kernels (Props/C15.lean); tie = translator +
correspondence sweeps (hash of outputs over strided ranges, both build profiles) + the big-integer
oracle evaluated inside rust_exec over whole domains.
"""
import random
import core

Q = 8380417
G2 = (95232, 261888)
DOM32 = 2143289344


def ranges(lo, hi, parts):
    step = max(1, (hi - lo + parts - 1) // parts)
    x = lo
    while x < hi:
        yield x, min(hi, x + step)
        x += step


def oracle_lines(tier, rng):
    """(line, tag) for the in-harness big-integer oracle (implementation-vs-oracle, Rust only)"""
    L = []
    Lb = []   # short boundary windows, appended at the end so that the long ranges stay evenly spread over the shards
    thorough = tier == 'thorough'
    # all 2^24 three-byte inputs x CTEST; all half bytes
    for ct in (0, 1):
        for a, b in ranges(0, 1 << 24, 16):
            L.append((f"oracle coeff3 {ct} 0 {a} {b} 1", 'coeff3-exhaustive'))
        for eta in (2, 4):
            L.append((f"oracle coeffhalf {ct} {eta} 0 16 1", 'coeffhalf-exhaustive'))
    # every r in Z_q for decompose / high / low / use_hint / power2round, plus out-of-[0,q) windows
    for g in G2:
        for k in ('decompose', 'high_bits', 'low_bits'):
            for a, b in ranges(0, Q, 8):
                L.append((f"oracle {k} {g} 0 {a} {b} 1", k + '-Zq-exhaustive'))
            for a, b in ((-DOM32 + 1, -DOM32 + 200001), (DOM32 - 200000, DOM32), (-Q - 1000, -Q + 1000), (-200000, 0)):
                L.append((f"oracle {k} {g} 0 {a} {b} 1", k + '-i32-window'))
        for h in (0, 1):
            for a, b in ranges(0, Q, 8):
                L.append((f"oracle use_hint {g} {h} {a} {b} 1", 'use_hint-Zq-exhaustive'))
            L.append((f"oracle use_hint {g} {h} {-DOM32 + 1} {-DOM32 + 100001} 1", 'use_hint-i32-window'))
        # make_hint on the caller's shape: z in a grid incl. +-gamma2, r over strided Z_q and boundaries
        for z in (0, 1, -1, g, -g, g - 1, -(g - 1), 2 * g, Q - 1, -(Q - 1), rng.randrange(-g, g)):
            st = 1 if thorough else 37
            for a, b in ranges(0, Q, 4):
                L.append((f"oracle make_hint {g} {z} {a} {b} {st}", 'make_hint-grid'))
            # every Decompose boundary of r, stride 1: the ends of each high-bits interval and the wrap-around corner q - gamma2
            m = (Q - 1) // (2 * g)
            for c in sorted(set([k * 2 * g + d for k in range(m + 1) for d in (-g, 0, g)] + [Q - g, Q - 1, 0, Q - 1 - g])):
                a, b = max(0, c - 4), min(Q, c + 5)
                if a < b:
                    Lb.append((f"oracle make_hint {g} {z} {a} {b} 1", 'make_hint-decompose-boundaries'))
    for a, b in ranges(0, Q, 8):
        L.append((f"oracle power2round 0 0 {a} {b} 1", 'power2round-Zq-exhaustive'))
    # 32-bit reductions: whole documented domain in thorough, stride + boundary windows in quick
    for k in ('partial_reduce32', 'full_reduce32', 'center_mod'):
        if thorough:
            for a, b in ranges(-DOM32 + 1, DOM32, 64):
                L.append((f"oracle {k} 0 0 {a} {b} 1", k + '-domain-exhaustive'))
        else:
            off = rng.randrange(0, 251)
            for a, b in ranges(-DOM32 + 1 + off, DOM32, 16):
                L.append((f"oracle {k} 0 0 {a} {b} 251", k + '-domain-stride251'))
            for c in (-DOM32 + 1, DOM32 - 400000, -200000, Q // 2 - 200000, -Q // 2 - 200000, Q - 200000, -Q - 200000, 2**31 - 1 - DOM32):
                L.append((f"oracle {k} 0 0 {c} {min(c + 400000, DOM32)} 1", k + '-boundary-window'))
    # Montgomery reduction: boundary and sampled high words x low words
    # asserted range: -2^31 q <= a <= 2^31 q - 1, i.e. high word -4190209 (low word >= 2^31) .. 4190208 (low word < 2^31)
    his = [(-4190209, 1 << 31, 1 << 32), (-4190208, 0, 1 << 32), (-1, 0, 1 << 32), (0, 0, 1 << 32), (1, 0, 1 << 32),
           (4190207, 0, 1 << 32), (4190208, 0, 1 << 31)]
    his += [(rng.randrange(-4190208, 4190208), 0, 1 << 32) for _ in range(64 if thorough else 6)]
    for hi, l0, l1 in his:
        st = 1 if thorough else 4099
        off = 0 if thorough else rng.randrange(0, st)
        for a, b in ranges(l0 + off, l1, 8):
            L.append((f"oracle mont_reduce_hl {hi} 0 {a} {b} {st}", 'mont_reduce-hi-x-lo'))
    # the two extreme high words are only partly inside the asserted range
    top = (1 << 31) * Q - 1
    L.append((f"oracle mont_reduce 0 0 {top - 300000} {top + 1} 1", 'mont_reduce-top-window'))
    L.append((f"oracle mont_reduce 0 0 {-(1 << 31) * Q} {-(1 << 31) * Q + 300000} 1", 'mont_reduce-bottom-window'))
    # 64-bit Barrett on the caller's shape: every |x| < 67058539 in thorough; stride + full top slices in quick
    B = 67058539
    if thorough:
        for a, b in ranges(-B + 1, B, 64):
            L.append((f"oracle partial_reduce64s 0 0 {a} {b} 1", 'partial_reduce64-shape-exhaustive'))
    else:
        off = rng.randrange(0, 29)
        for a, b in ranges(-B + 1 + off, B, 16):
            L.append((f"oracle partial_reduce64s 0 0 {a} {b} 29", 'partial_reduce64-shape-stride29'))
        for a, b in list(ranges(67000000, B, 4)) + list(ranges(-B + 1, -67000000 + 1, 4)):
            L.append((f"oracle partial_reduce64s 0 0 {a} {b} 1", 'partial_reduce64-top-slice-exhaustive'))
    return L + Lb


def sweep_lines(tier, rng):
    """(line, tag): hash sweeps compared between rust_exec and the Lean model"""
    L = []
    n = 1 << (22 if tier == 'thorough' else 17)
    for k in ('partial_reduce32', 'full_reduce32', 'center_mod'):
        st = (2 * DOM32) // n
        off = rng.randrange(0, st)
        for a, b in ranges(-DOM32 + 1 + off, DOM32, 32):
            L.append((f"sweep {k} 0 0 {a} {b} {st}", k))
        for c in (-DOM32 + 1, DOM32 - 3000, -3000, Q // 2 - 1500, -Q // 2 - 1500):
            L.append((f"sweep {k} 0 0 {c} {min(c + 3000, DOM32)} 1", k + '-window'))
    top = (1 << 31) * Q
    st = (2 * top) // n
    for a, b in ranges(-top + rng.randrange(0, st), top, 32):
        L.append((f"sweep mont_reduce 0 0 {a} {b} {st}", 'mont_reduce'))
    L.append((f"sweep mont_reduce 0 0 {top - 3000} {top} 1", 'mont_reduce-window'))
    L.append((f"sweep mont_reduce 0 0 {-top} {-top + 3000} 1", 'mont_reduce-window'))
    B = 67058539
    st = (2 * B) // n
    for a, b in ranges(-B + 1 + rng.randrange(0, st), B, 32):
        L.append((f"sweep partial_reduce64s 0 0 {a} {b} {st}", 'partial_reduce64s'))
    L.append((f"sweep partial_reduce64s 0 0 {B - 3000} {B} 1", 'partial_reduce64s-window'))
    L.append((f"sweep partial_reduce64s 0 0 {-B + 1} {-B + 3001} 1", 'partial_reduce64s-window'))
    for g in G2:
        st = max(1, Q // (n // 4))
        for k in ('decompose', 'high_bits', 'low_bits'):
            for a, b in ranges(rng.randrange(0, st), Q, 16):
                L.append((f"sweep {k} {g} 0 {a} {b} {st}", k))
            L.append((f"sweep {k} {g} 0 {Q - 200000} {Q} 41", k + '-corner'))
            L.append((f"sweep {k} {g} 0 {-DOM32 + 1} {-DOM32 + 2001} 1", k + '-window'))
        for h in (0, 1):
            for a, b in ranges(rng.randrange(0, st), Q, 16):
                L.append((f"sweep use_hint {g} {h} {a} {b} {st}", 'use_hint'))
        for z in (1, -1, g, -g, rng.randrange(-g, g)):
            for a, b in ranges(rng.randrange(0, 4 * st), Q, 8):
                L.append((f"sweep make_hint {g} {z} {a} {b} {4 * st}", 'make_hint'))
    for a, b in ranges(rng.randrange(0, 16), Q, 16):
        L.append((f"sweep power2round 0 0 {a} {b} 16", 'power2round'))
    for ct in (0, 1):
        st = 1 if tier == 'thorough' else 61
        for a, b in ranges(rng.randrange(0, st), 1 << 24, 32):
            L.append((f"sweep coeff3 {ct} 0 {a} {b} {st}", 'coeff3'))
        for eta in (2, 4):
            L.append((f"sweep coeffhalf {ct} {eta} 0 16 1", 'coeffhalf'))
    # out-of-domain points: the checked build must fault exactly where the model does
    for k, pts in (('partial_reduce32', (DOM32, -DOM32, 2**31 - 1, -2**31)), ('center_mod', (DOM32, -DOM32)),
                   ('mont_reduce', (top, -top - 1)), ('partial_reduce64s', (B, -B))):
        for x in pts:
            L.append((f"k.{k} 0 0 {x}", k + '-out-of-domain'))
    L.append(("zeta", 'zeta-table'))
    L.append(("consts", 'consts'))
    return L


def bisect(line, outs_a, outs_b):
    """narrow a differing sweep down to one input (returns a `k.` line) - best effort"""
    t = line.split()
    if t[0] != 'sweep':
        return line
    k, p1, p2, lo, hi, st = t[1], t[2], t[3], int(t[4]), int(t[5]), int(t[6])
    for _ in range(64):
        cnt = (hi - lo + st - 1) // st
        if cnt <= 1:
            return f"k.{k} {p1} {p2} {lo}"
        mid = lo + (cnt // 2) * st
        l1 = f"sweep {k} {p1} {p2} {lo} {mid} {st}"
        o = core.run_ops([l1])
        if core.canon(o['rust_checked'][0]) != core.canon(o['model_checked'][0]) or core.canon(o['rust_fast'][0]) != core.canon(o['model_release'][0]):
            hi = mid
        else:
            lo = mid
    return line


def check(tier, seed):
    rep = core.Report('C15', tier, seed)
    rng = random.Random(seed)
    b = core.prepare('C15', 'Fips204/Props/C15.lean')
    if b.cargo_errs:
        return core.finish(rep, b, 'proof', {}, ['harness build failed'])
    # 1. implementation vs big-integer oracle, whole domains, both profiles (Rust only)
    ol = oracle_lines(tier, rng)
    lines = [l for l, _ in ol]
    for prof in ('checked', 'fast'):
        outs = core.run_stream([core.RUST[prof]], lines)
        for (l, tag), o in zip(ol, outs):
            n = 0
            if o.startswith('ok '):
                n = int(o.split()[1])
            rep.evaluations += max(n, 1)
            rep.count(f'oracle:{tag}', max(n, 1))
            if o.startswith('ok '):
                rep.nontrivial.add(('oracle', tag, l))
                continue
            rep.violation('implementation-vs-oracle', [l], {'profile': prof, 'output': o[:400]}, True)
    rep.sample(lines[0] + ' -> ' + 'ok <count>')
    # 2. correspondence: model vs rust over sweeps, both modes
    sl = sweep_lines(tier, rng)
    lines2 = [l for l, _ in sl]
    if b.model_ok:
        outs = core.run_ops(lines2)
        for i, (l, tag) in enumerate(sl):
            rc_, rf_, mc_, mr_ = (outs[k][i] for k in ('rust_checked', 'rust_fast', 'model_checked', 'model_release'))
            rep.corr_compared += 2
            cnt = int(rc_.split()[1]) if l.startswith('sweep') and len(rc_.split()) == 2 and rc_.split()[1].isdigit() else 1
            rep.evaluations += cnt
            rep.count(f'corr:{tag}', cnt)
            if core.canon(rc_) == core.canon(mc_) and core.canon(rf_) == core.canon(mr_):
                rep.nontrivial.add(('corr', tag, l))
                if i % 97 == 0:
                    rep.sample(f"{l} -> rust={rc_[:40]} model={mc_[:40]}")
                continue
            narrowed = bisect(l, None, None)
            rep.violation('correspondence', [narrowed], {'sweep': l, 'rust_checked': rc_[:200], 'model_checked': mc_[:200],
                                                         'rust_fast': rf_[:200], 'model_release': mr_[:200]}, False)
    else:
        rep.notes.append('model driver does not build against the regenerated Gen files; correspondence skipped')
    extra = {'exhaustive': tier == 'thorough',
             'rule': 'oracle lines: one per (kernel, parameter, sub-range), non-trivial = the range ran to completion inside the '
                     'documented domain; correspondence lines: one per (kernel, parameter, sub-range) hash sweep, non-trivial = '
                     'both build modes agreed between crate and model; counts are numbers of kernel evaluations',
             'tie': 'translator (Gen/Kernels.lean regenerated this run; theorems are about those terms) + correspondence sweeps'}
    return core.finish(rep, b, 'proof', extra,
                       ['Spec/Arith.lean transcribes FIPS 204 Algorithms 14, 15, 35-40, 49', 'Rust integer semantics as encoded in Fips204/Basic.lean',
                        'partial_reduce64: |x| <= 67_000_000 by linear arithmetic, the two top slices by kernel evaluation of every value (Lemmas/Pr64Top.lean); they are also swept exhaustively here'])
