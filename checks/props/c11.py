"""C11 - the public key derived from a private key equals the generated one (DESIGN 5 C11)."""
import random
import core, fam
from fam import hx, R


def check(tier, seed):
    rep = core.Report('C11', tier, seed)
    rng = random.Random(seed)
    b = core.prepare('C11', 'Fips204/Props/C11.lean')
    if b.cargo_errs:
        return core.finish(rep, b, 'proof', {}, ['build failed'])
    n = 200 if tier == 'thorough' else 8
    lines, meta = [], []
    for s in fam.SETS:
        for i, xi in enumerate(fam.boundary_seeds(s, 2) + fam.zero_sum_seeds(s) + fam.seeds(rng, n)):
            for src in ('gen', 'rt'):
                lines.append(f"derive {s} {src}:{xi.hex()}"); meta.append((s, xi, src, 'derive', i))
            lines.append(f"pk_from {s} gen:{xi.hex()}"); meta.append((s, xi, 'gen', 'pk', i))
    outs = core.run_ops(lines, model=())
    # struct and byte equality on the crate (both profiles)
    ref = {}
    for (s, xi, src, kind, i), oc, of in zip(meta, outs['rust_checked'], outs['rust_fast']):
        if kind == 'pk':
            ref[(s, xi)] = (oc, of)
    for (s, xi, src, kind, i), line, oc, of in zip(meta, lines, outs['rust_checked'], outs['rust_fast']):
        rep.evaluations += 1
        rep.count(f'{kind} {src}')
        if kind != 'derive':
            continue
        pkb = fam.keypair(s, xi)[0]
        for prof, o, r in (('checked', oc, ref[(s, xi)][0]), ('fast', of, ref[(s, xi)][1])):
            want_struct = r[3:] if r.startswith('ok ') else None
            got = o[3:].split(' bytes=') if o.startswith('ok ') else None
            if got is None or want_struct is None or got[0] != want_struct or got[1] != pkb.hex():
                rep.violation('implementation-vs-oracle', [line], {'profile': prof, 'oracle': 'derived public key must equal the generated one field by field (rho, tr, t1 precompute) and byte for byte',
                                                                  'derived': o[:200], 'generated': r[:200]}, True)
                break
        else:
            rep.nontrivial.add((s, xi, src))
    rep.sample(lines[0] + ' -> ' + outs['rust_checked'][0][:120])
    # bulk: many generated keys - a derivation that goes wrong on one rare stored word (a negative or extremal NTT-domain precompute:
    # one key in a thousand) is met here; the derived struct must be the generated one, in both build profiles
    bl, bm = [], []
    for s in fam.SETS:
        for t in range(6000 if tier == 'thorough' else 1300):
            xs = (t * 2654435761 + seed + 11).to_bytes(8, 'little') + bytes(24)
            bl.append(f"derive {s} gen:{xs.hex()}"); bm.append((s, xs, 'derive'))
            bl.append(f"pk_from {s} gen:{xs.hex()}"); bm.append((s, xs, 'pk'))
    bo = {prof: core.run_stream([core.RUST[prof]], bl) for prof in ('checked', 'fast')}
    for prof in ('checked', 'fast'):
        for j in range(0, len(bl), 2):
            rep.evaluations += 1
            rep.count('bulk derive == generated (struct)')
            d, g = bo[prof][j], bo[prof][j + 1]
            if not (d.startswith('ok ') and g.startswith('ok ') and d[3:].split(' bytes=')[0] == g[3:]):
                rep.violation('implementation-vs-oracle', [bl[j]], {'profile': prof, 'oracle': 'derived public key must equal the generated one field by field',
                                                                  'derived': d[:200], 'generated': g[:200]}, True)
            else:
                rep.nontrivial.add((bm[j][0], bm[j][1], 'bulk'))
    # model agreement on a sample
    sub = [l for l, m_ in zip(lines, meta) if m_[4] == 0 and m_[3] == 'derive']
    so = core.run_ops(sub)
    for i, l in enumerate(sub):
        rep.corr_compared += 2
        if core.canon(so['rust_checked'][i]) != core.canon(so['model_checked'][i]) or core.canon(so['rust_fast'][i]) != core.canon(so['model_release'][i]):
            rep.violation('correspondence', [l], {'rust_checked': so['rust_checked'][i][:200], 'model_checked': so['model_checked'][i][:200]}, False)
    # same verification decisions with derived keys, on valid and invalid signatures
    cases = []
    for s in fam.SETS:
        p = R.PARAMS[s]
        xi = bytes(rng.randrange(256) for _ in range(32))
        pk, sk = fam.keypair(s, xi)
        for mode in ('pure', 'sha256', 'internal'):
            msg, ctx = b'derive', b'\x07'
            sig = R.sign(p, sk, msg, ctx, mode, bytes(32))
            badsig = bytearray(sig); badsig[5] ^= 1
            for src in ('der:gen', 'der:rt', 'der:bytes'):
                ps = f"{src}:{xi.hex()}" if src != 'der:bytes' else f"der:bytes:{sk.hex()}"
                cases.append({'line': f"verify {s} {mode} {ps} {hx(msg)} {hx(ctx)} {sig.hex()}", 'tag': f'valid signature under {src}', 'want': 'true', 'model': mode == 'pure' and src == 'der:gen'})
                cases.append({'line': f"verify {s} {mode} {ps} {hx(msg)} {hx(ctx)} {bytes(badsig).hex()}", 'tag': f'invalid signature under {src}', 'want': 'false', 'model': False})
                cases.append({'line': f"verify {s} {mode} {ps} {hx(msg + b'!')} {hx(ctx)} {sig.hex()}", 'tag': f'wrong message under {src}', 'want': 'false', 'model': False})
    # constructed private keys whose t = A s1 + s2 lands at or above q / below 0 before the final reduction (measure-zero for
    # honest keys: about 1e-4 per key); expected public key bytes from the reference
    for s in fam.SETS:
        for tag, skb, pkb in fam.boundary_t_keys(rng, s, want=2 if tier == 'quick' else 8):
            cases.append({'line': f"derive {s} bytes:{skb.hex()}", 'tag': 'derive on boundary key: ' + tag.split('(')[0].strip(),
                          'want': (lambda e: (lambda o: None if o.startswith('ok ') and o.endswith('bytes=' + e) else 'derived public key must be pkEncode(rho, Power2Round(A s1 + s2 mod q).t1)'))(pkb.hex()), 'model': True})
    # structurally extreme accepted keys: every s1 / s2 field the same code, for every in-range code
    for s in fam.SETS:
        p = R.PARAMS[s]
        _, sk0 = fam.keypair(s, bytes(32))
        for tag, skb, ok in fam.constant_field_keys(s, sk0):
            if ok and tag.startswith('s1, s2'):
                pkb = fam.ref_derive(p, skb)
                cases.append({'line': f"derive {s} bytes:{skb.hex()}", 'tag': 'derive on constant-field key',
                              'want': (lambda e: (lambda o: None if o.startswith('ok ') and o.endswith('bytes=' + e) else 'derived public key must be pkEncode(rho, Power2Round(A s1 + s2 mod q).t1)'))(pkb.hex()), 'model': 'field = 0' in tag})
    core.run_and_judge(rep, cases, model_every=0)
    return core.finish(rep, b, 'proof', {
        'rule': 'one case per (set, seed, sk provenance in {generated, round-tripped}): derived struct fields and bytes compared with the generated public key; '
                'verification decisions with derived keys on valid / invalid signatures; non-trivial = distinct seed whose derived key was compared field by field',
        'tie': 'correspondence + property oracle (struct equality, decision equality)'},
        ['Lean: the derived struct equals the generated one for every generated pair (Props/C11b); the reference derivation is the independent oracle for constructed keys'])
