"""C10 - malformed private keys are rejected at deserialisation (DESIGN 5 C10)."""
import random
import core, fam
from fam import R


def set_field(sk, bl, f, v):
    """overwrite the f-th bl-bit field of the s1||s2 region (starts at byte 128) with value v"""
    b = bytearray(sk)
    pos = 128 * 8 + f * bl
    for i in range(bl):
        byte, bit = (pos + i) // 8, (pos + i) % 8
        b[byte] = (b[byte] & ~(1 << bit)) | (((v >> i) & 1) << bit)
    return bytes(b)


def check(tier, seed):
    rep = core.Report('C10', tier, seed)
    rng = random.Random(seed)
    b = core.prepare('C10', 'Fips204/Props/C10.lean')
    if b.cargo_errs:
        return core.finish(rep, b, 'proof', {}, ['build failed'])
    cases = []
    for s in fam.SETS:
        p = R.PARAMS[s]
        eta, k, l = p['eta'], p['k'], p['l']
        bl = R.bitlen(2 * eta)
        nf = (k + l) * 256
        _, sk = fam.keypair(s, bytes(rng.randrange(256) for _ in range(32)))
        polys = sorted({0, l - 1, l, l + k - 1} | ({rng.randrange(k + l)} if tier == 'quick' else set(range(k + l))))
        coeffs = sorted({0, 1, 127, 128, 254, 255} | ({rng.randrange(256)} if tier == 'quick' else set(range(0, 256, 5))))
        for pi in polys:
            for ci in coeffs:
                f = pi * 256 + ci
                for v in range(0, 1 << bl):
                    bad = v > 2 * eta
                    if not bad and not (ci in (0, 255) or tier == 'thorough'):
                        continue
                    key = set_field(sk, bl, f, v)
                    assert R.sk_fields_in_range(p, key) == (not bad)
                    vec = 's1' if pi < l else 's2'
                    if bad:
                        cases.append({'line': f"sk_from {s} bytes:{key.hex()}", 'tag': f'out-of-range field {vec} eta={eta}', 'want': 'err', 'model': v == (1 << bl) - 1 and ci == 0})
                    else:
                        cases.append({'line': f"sk_rt {s} bytes:{key.hex()}", 'tag': f'in-range field {vec} eta={eta}: accepted and re-serialises (checked build: no self-check panic)',
                                      'want': 'ok ' + key.hex(), 'model': v == 0 and ci == 0 and pi == 0})
        # every field of s1 and s2 holding the same code, for every code of the field width; every t0 field the same code
        for tag, key, ok in fam.constant_field_keys(s, sk):
            assert R.sk_fields_in_range(p, key) == ok
            if ok:
                cases.append({'line': f"sk_rt {s} bytes:{key.hex()}", 'tag': 'constant fields, in range: accepted and re-serialises', 'want': 'ok ' + key.hex(), 'model': 'field = 0' in tag})
            else:
                cases.append({'line': f"sk_from {s} bytes:{key.hex()}", 'tag': 'constant fields, out of range', 'want': 'err', 'model': False})
        # a whole polynomial out of range (256 bad fields), and the all-FF key
        for tag, key in fam.whole_poly_bad_keys(s, sk):
            assert not R.sk_fields_in_range(p, key)
            cases.append({'line': f"sk_from {s} bytes:{key.hex()}", 'tag': 'whole polynomial out of range: ' + tag.split(' of polynomial')[0], 'want': 'err', 'model': 'all-0xFF' in tag})
        # multi-field random strings: all in range (must be accepted) / one or more out of range (must be rejected)
        for t in range(200 if tier == 'thorough' else 12):
            key = bytearray(sk)
            for f in rng.sample(range(nf), rng.choice((1, 3, 40, nf))):
                key = bytearray(set_field(bytes(key), bl, f, rng.randrange(0, 2 * eta + 1)))
            key = bytes(key)
            cases.append({'line': f"sk_rt {s} bytes:{key.hex()}", 'tag': 'random in-range fields', 'want': 'ok ' + key.hex(), 'model': t == 0})
            bad = bytearray(key)
            for f in rng.sample(range(nf), rng.choice((1, 2, 17))):
                bad = bytearray(set_field(bytes(bad), bl, f, rng.randrange(2 * eta + 1, 1 << bl)))
            cases.append({'line': f"sk_from {s} bytes:{bytes(bad).hex()}", 'tag': 'random out-of-range fields', 'want': 'err', 'model': t == 0})
        # fully random byte strings: the reference decides
        for t in range(20 if tier == 'thorough' else 4):
            key = bytes(rng.randrange(256) for _ in range(len(sk)))
            ok = R.sk_fields_in_range(p, key)
            cases.append({'line': f"sk_from {s} bytes:{key.hex()}", 'tag': 'uniformly random bytes', 'want': (lambda o: None if o.startswith('ok ') else 'must be accepted') if ok else 'err', 'model': False})
    # the F1 witness runs first in spirit: it is part of the family above (field value 7 at s1[0][0]); keep the corpus line too
    for line in open(core.VERIF + '/corpus/F1.ops').read().strip().split('\n'):
        cases.insert(0, {'line': line, 'tag': 'corpus F1 (pinned-tree witness)', 'want': 'err', 'model': True})
    core.run_and_judge(rep, cases, model_every=0)
    return core.finish(rep, b, 'proof', {
        'rule': 'one case per (set, vector, polynomial, coefficient, field value): every out-of-range value 2*eta+1 .. 2^bitlen-1 at the structural position classes '
                '(first/middle/last polynomial of s1 and s2, coefficients 0, 1, 127, 128, 254, 255 + random), plus multi-field and uniformly random strings; '
                'non-trivial = the byte string differs from an honest key exactly in the stated fields and the FIPS 204 field decoder (Python) classified it',
        'tie': 'correspondence + implementation-vs-oracle (Err iff some field out of range; accepted keys re-serialise to the same bytes in the checked build)'},
        ['theorem proved: accepted implies in range (all byte strings); the converse direction is decided by the runs above'])
