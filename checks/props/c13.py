"""C13 - no input can make the library panic (DESIGN 5 C13).  Oracle: no operation on the public API panics in a
build with debug assertions and overflow checks on (and none aborts the release build either)."""
import random
import core, fam
from fam import hx, R
from props.c10 import set_field


def nopanic(o):
    return 'public API call panicked or crashed' if o.startswith(('panic', 'harness')) else None


def check(tier, seed):
    rep = core.Report('C13', tier, seed)
    rng = random.Random(seed)
    b = core.prepare('C13', 'Fips204/Props/C13.lean')
    if b.cargo_errs:
        return core.finish(rep, b, 'proof', {}, ['build failed'])
    thorough = tier == 'thorough'
    n = 400 if thorough else 10
    cases = []
    def add(line, tag, model=False):
        cases.append({'line': line, 'tag': tag, 'want': nopanic, 'model': model})
    # corpus first: the three pinned-tree witnesses
    for f in ('F1', 'F2', 'F3'):
        for line in open(f"{core.VERIF}/corpus/{f}.ops").read().strip().split('\n'):
            add(line, f'corpus {f} (pinned-tree panic witness)', True)
    # F4 (repaired by 322a92d): an accepted key that makes more than 65535 / l attempts fail - the signer must return an error, in both profiles
    # (the model is not asked: 16 384 attempts take it half an hour)
    for line in open(f"{core.VERIF}/corpus/F4.ops").read().strip().split('\n'):
        cases.append({'line': line, 'tag': 'corpus F4 (pinned-tree panic witness)', 'want': 'err:other calls=tryfill32', 'model': False})
    for s in fam.SETS:
        p = R.PARAMS[s]
        plen, slen, glen = R.pk_len(p), R.sk_len(p), R.sig_len(p)
        eta, k, l = p['eta'], p['k'], p['l']
        bl = R.bitlen(2 * eta)
        xi = bytes(rng.randrange(256) for _ in range(32))
        pk, sk = fam.keypair(s, xi)
        msg = b'no panic'
        sig = R.sign(p, sk, msg, b'', 'pure', bytes(32))
        # --- malformed stream: uniformly random byte strings of the right lengths
        for t in range(n):
            rpk = bytes(rng.randrange(256) for _ in range(plen))
            rsig = bytes(rng.randrange(256) for _ in range(glen))
            rsk = bytes(rng.randrange(256) for _ in range(slen))
            rmsg = bytes(rng.randrange(256) for _ in range(rng.choice((0, 1, 64, 300))))
            rctx = bytes(rng.randrange(256) for _ in range(rng.choice((0, 1, 255, 256, 1000))))
            mode = rng.choice(fam.MODES + ('internal',))
            add(f"pk_rt {s} bytes:{rpk.hex()}", 'random pk: deserialise + serialise', t == 0)
            add(f"verify {s} {mode} bytes:{rpk.hex()} {hx(rmsg)} {hx(rctx)} {rsig.hex()}", 'verify: random pk, sig, msg, ctx', t == 0)
            add(f"verify {s} {mode} bytes:{pk.hex()} {hx(rmsg)} {hx(rctx)} {rsig.hex()}", 'verify: honest pk, random sig', False)
            add(f"sk_rt {s} bytes:{rsk.hex()}", 'random sk bytes: deserialise (+ serialise if accepted)', t == 0)
            add(f"derive {s} bytes:{rsk.hex()}", 'random sk bytes: derive public key', False)
            # signature with a valid prefix and a random hint section / random z
            mixed = bytearray(sig)
            cut = rng.randrange(0, glen)
            mixed[cut:] = bytes(rng.randrange(256) for _ in range(glen - cut))
            add(f"verify {s} pure bytes:{pk.hex()} {hx(msg)} - {bytes(mixed).hex()}", 'verify: valid prefix + random tail', False)
        # --- accepted but dishonest private keys: every field in range, everything else arbitrary
        for t in range(n):
            key = bytearray(rng.randrange(256) for _ in range(slen))
            nf = (k + l) * 256
            kb = bytes(key)
            # fill the s1||s2 region with in-range fields (random, or extremal)
            style = t % 4
            region = 0
            for f in range(nf):
                v = rng.randrange(0, 2 * eta + 1) if style == 0 else (0 if style == 1 else (2 * eta if style == 2 else (0 if f % 2 else 2 * eta)))
                region |= v << (f * bl)
            key[128:128 + nf * bl // 8] = region.to_bytes(nf * bl // 8, 'little')
            if style == 2:
                key[128 + nf * bl // 8:] = bytes([0xff]) * (slen - 128 - nf * bl // 8)     # t0 all at one range end
            if style == 3:
                key[128 + nf * bl // 8:] = bytes(slen - 128 - nf * bl // 8)
            kb = bytes(key)
            assert R.sk_fields_in_range(p, kb)
            add(f"sk_rt {s} bytes:{kb.hex()}", 'accepted dishonest sk: serialise', t < 2)
            add(f"derive {s} bytes:{kb.hex()}", 'accepted dishonest sk: derive public key', t < 1)
            mode = fam.MODES[t % 4]
            add(f"sign {s} {mode} bytes:{kb.hex()} {hx(msg)} {hx(b'c')} ok:{'33' * 32}", 'accepted dishonest sk: sign', t < 1)
        # --- hint sections built from scratch (long increasing index runs x count patterns beyond every bound) on a zero c~ / z prefix
        for tag, y in fam.adversarial_hint_sections(p):
            sg = bytes(glen - len(y)) + y
            add(f"verify {s} pure bytes:{pk.hex()} {hx(msg)} - {sg.hex()}", 'verify: crafted hint section', 'last 0' in tag and 'indices 0,1,2' in tag)
        # --- every s1 / s2 field the same code (all codes), every t0 field the same code: deserialise, serialise, derive, sign
        for tag, kb, ok in fam.constant_field_keys(s, sk):
            add(f"sk_rt {s} bytes:{kb.hex()}", 'constant-field key: deserialise (+ serialise if accepted)', False)
            add(f"derive {s} bytes:{kb.hex()}", 'constant-field key: derive', False)
            if ok:
                add(f"sign {s} pure bytes:{kb.hex()} {hx(msg)} - ok:{'00' * 32}", 'constant-field key: sign', False)
        # --- a whole s1/s2 polynomial out of range, the all-FF key
        for tag, kb in fam.whole_poly_bad_keys(s, sk):
            add(f"sk_rt {s} bytes:{kb.hex()}", 'whole polynomial out of range: deserialise (+ serialise if accepted)', False)
            add(f"derive {s} bytes:{kb.hex()}", 'whole polynomial out of range: derive', False)
        # --- one out-of-range s1/s2 field at each structural position: whatever deserialisation does with it, nothing may panic
        for pi in sorted({0, l - 1, l, l + k - 1}):
            for ci in (0, 1, 2, 3, 4, 5, 6, 7, 253, 255):      # every alignment of a field against the byte boundaries
                for v in (2 * eta + 1, (1 << bl) - 1):
                    kb = set_field(sk, bl, pi * 256 + ci, v)
                    add(f"sk_rt {s} bytes:{kb.hex()}", 'out-of-range s1/s2 field: deserialise (+ serialise if accepted)', False)
                    add(f"derive {s} bytes:{kb.hex()}", 'out-of-range s1/s2 field: derive', False)
        # --- accepted keys whose t = A s1 + s2 leaves [0, q) before the final reduction
        for tag, skb, _ in fam.boundary_t_keys(rng, s, want=1):
            add(f"derive {s} bytes:{skb.hex()}", 'boundary-t key: derive', True)
            add(f"sign {s} pure bytes:{skb.hex()} {hx(msg)} - ok:{'77' * 32}", 'boundary-t key: sign', False)
        # --- honest key with an edited t0 section (the F2 class), tr, K
        for t in range(n):
            kb = bytearray(sk)
            for _ in range(rng.choice((1, 8, 64))):
                pos = rng.randrange(32, slen)
                if 128 <= pos < 128 + (k + l) * 256 * bl // 8:
                    continue
                kb[pos] ^= 1 << rng.randrange(8)
            add(f"derive {s} bytes:{bytes(kb).hex()}", 'honest sk with edited K / tr / t0: derive', t == 0)
            add(f"sk_rt {s} bytes:{bytes(kb).hex()}", 'honest sk with edited K / tr / t0: serialise', False)
            add(f"sign {s} pure bytes:{bytes(kb).hex()} {hx(msg)} - ok:{'00'}", 'honest sk with edited K / tr / t0: sign', False)
        # --- forged signatures at the boundaries (verification pipeline on adversarial vectors)
        for tag, z, h in fam.forgery_family(rng, s, n_random=4 if thorough else 1):
            fpk, fsig, _ = fam.forge(s, bytes(rng.randrange(256) for _ in range(32)), z, h, msg, b'', 'pure')
            if fsig:
                add(f"verify {s} pure bytes:{fpk.hex()} {hx(msg)} - {fsig.hex()}", 'forged signature: ' + tag.split('(')[0].strip(), True)
        # --- extremal public keys
        for tag, pkb in (('all-00', bytes(plen)), ('all-FF', bytes([0xff]) * plen)):
            add(f"verify {s} pure bytes:{pkb.hex()} {hx(msg)} - {sig.hex()}", f'verify under {tag} public key', True)
        # --- many honestly generated keys through serialise / derive (a defect that needs one rare stored word - a negative or
        #     extremal NTT-domain precompute, one key in a few hundred - shows here)
        for t in range(2000 if thorough else 260):
            xs = (t * 2654435761 + seed).to_bytes(8, 'little') + bytes(24)
            add(f"sk_rt {s} gen:{xs.hex()}", 'generated key: serialise private key', False)
            add(f"pk_rt {s} gen:{xs.hex()}", 'generated key: serialise public key', False)
            if t % 4 == 0:
                add(f"derive {s} gen:{xs.hex()}", 'generated key: derive public key', False)
        # --- every mode x context length x message length on the API (buffers sized from ctx / digest / OID lengths):
        #     honest signing, and verification of a decodable junk signature (all zero) so the whole pipeline runs
        zsig = bytes(glen)
        ctx_lens = (0, 1, 31, 32, 33, 63, 64, 65, 127, 128, 129, 191, 192, 193, 200, 210, 220, 222, 223, 224, 225, 232, 239, 240, 241, 244, 245, 250, 253, 254, 255)
        for mode in fam.MODES:
            for ci, cl in enumerate(ctx_lens if (thorough or mode != 'pure') else ctx_lens[::3] + (255,)):
                cx = bytes((7 * j + cl) % 256 for j in range(cl))
                for ml in ((0, 1, 135, 136, 137, 1000) if thorough else ((0, 137) if ci % 4 else (1, 136, 1000))):
                    mg = bytes((j * 3 + 1) % 256 for j in range(ml))
                    add(f"sign {s} {mode} gen:{xi.hex()} {hx(mg)} {hx(cx)} ok:{'5a' * 32}", f'sign: {mode}, every context length x message length', cl in (224, 255) and ml in (0, 1))
                    add(f"verify {s} {mode} bytes:{pk.hex()} {hx(mg)} {hx(cx)} {zsig.hex()}", f'verify (decodable junk signature): {mode}, every context length', False)
        for cl in (256, 257, 300, 511, 512, 65535, 65536, 65537, 70000):
            cx = bytes(cl)
            for mode in fam.MODES:
                add(f"sign {s} {mode} gen:{xi.hex()} {hx(msg)} {hx(cx)} ok:{'5a' * 32}", 'sign: over-long context', False)
                add(f"verify {s} {mode} bytes:{pk.hex()} {hx(msg)} {hx(cx)} {zsig.hex()}", 'verify: over-long context', False)
        # --- failing generators and long contexts on the signing side
        add(f"sign {s} pure gen:{xi.hex()} {hx(msg)} {'00' * 300} errbefore", 'sign: long ctx', True)
        add(f"sign {s} sha512 gen:{xi.hex()} {hx(msg)} - errafter:{'aa' * 7}", 'hash_sign: failing RNG', True)
        add(f"keygen_rng {s} -", 'keygen: empty RNG script', True)
    # --- long rejection runs: an accepted private key whose t0 sits near the ends of its range everywhere (never produced by key generation) makes almost
    # every attempt fail the hint-weight / ||c t0|| tests, so signing needs hundreds of attempts - still far inside the 16-bit counter; whatever counts
    # attempts, hints or kappa in a narrower type overflows here
    for s in fam.SETS:
        p = R.PARAMS[s]
        pk0, sk0 = fam.keypair(s, bytes([0x42]) * 32)
        rho0, K0, tr0, s10, s20, _t0 = R.sk_decode(p, sk0)
        for amp in (3900, 4000):
            sg = random.Random(amp + int(s))        # fixed pseudo-random signs: c * t0 is then large in most coefficients
            t0x = [[amp if sg.random() < 0.5 else -amp for j in range(256)] for i in range(p['k'])]
            skx = R.sk_encode(p, rho0, K0, tr0, s10, s20, t0x)
            for t in range(3 if thorough else 2):
                add(f"sign {s} pure bytes:{skx.hex()} {hx(bytes([t, amp % 256]) + b'long rejection run')} - ok:{'00' * 32}", 'sign: key with |t0| near the range end everywhere (hundreds of attempts)', False)
    core.run_and_judge(rep, cases, model_every=0, rust=('checked', 'fast'))
    return core.finish(rep, b, 'proof', {
        'rule': 'uniformly random pk / sk / sig / msg / ctx (any length); accepted-but-dishonest private keys (all fields in range, K / tr / t0 arbitrary or extremal) through serialise, derive and sign; '
                'honest keys with an edited t0 section; forged boundary signatures; extremal public keys; failing generators; the F1-F3 witnesses; non-trivial = the call ran to a value or an error',
        'tie': 'correspondence of fault / no-fault between the checked build and Mode.checked of the model + property oracle (no panic) on the crate'},
        ['the u16 attempt counter would overflow after more than 65535/l consecutive rejections (probability below 2^-256 per FIPS 204 Appendix C); sampler fuel in the model is a model-only artefact'])
