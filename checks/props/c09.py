"""C09 - key serialisation round-trips exactly and preserves behaviour (DESIGN 5 C09)."""
import random
import core, fam
from fam import hx, R


def check(tier, seed):
    rep = core.Report('C09', tier, seed)
    rng = random.Random(seed)
    b = core.prepare('C09', 'Fips204/Props/C09.lean')
    if b.cargo_errs:
        return core.finish(rep, b, 'proof', {}, ['build failed'])
    cases = []
    n = 300 if tier == 'thorough' else 10
    for s in fam.SETS:
        p = R.PARAMS[s]
        plen, slen = R.pk_len(p), R.sk_len(p)
        eta, k, l = p['eta'], p['k'], p['l']
        # --- public keys: every byte string of the right length
        pks = [('all-00', bytes(plen)), ('all-FF (t1 = 1023 everywhere: t1*2^d = q-1)', bytes([0xff]) * plen),
               ('rho random, t1 = 1023', bytes(rng.randrange(256) for _ in range(32)) + bytes([0xff]) * (plen - 32)),
               ('alternating 00/FF', bytes((0xff if i % 2 else 0) for i in range(plen)))]
        pks += [('uniformly random', bytes(rng.randrange(256) for _ in range(plen))) for _ in range(n)]
        for i, (tag, pkb) in enumerate(pks):
            cases.append({'line': f"pk_rt {s} bytes:{pkb.hex()}", 'tag': 'pk ' + tag, 'want': 'ok ' + pkb.hex(), 'model': i < 5})
        # --- private keys: honest, and extremal coefficient patterns inside the accepted ranges
        xi = bytes(rng.randrange(256) for _ in range(32))
        pk, sk = fam.keypair(s, xi)
        rho, K, tr = sk[:32], sk[32:64], sk[64:128]
        def enc(tag, f1, f2, f0):
            s1 = [[f1(i, j) for j in range(256)] for i in range(l)]
            s2 = [[f2(i, j) for j in range(256)] for i in range(k)]
            t0 = [[f0(i, j) for j in range(256)] for i in range(k)]
            return tag, R.sk_encode(p, rho, K, tr, s1, s2, t0)
        sks = [('honest', sk),
               enc('all coefficients at the lower range ends', lambda i, j: -eta, lambda i, j: -eta, lambda i, j: -4095),
               enc('all coefficients at the upper range ends', lambda i, j: eta, lambda i, j: eta, lambda i, j: 4096),
               enc('alternating range ends', lambda i, j: eta if (i + j) % 2 else -eta, lambda i, j: -eta if j % 2 else eta, lambda i, j: 4096 if j % 2 else -4095),
               enc('all zero', lambda i, j: 0, lambda i, j: 0, lambda i, j: 0)]
        for t in range(n):
            sks.append(enc('random in-range coefficients', lambda i, j: rng.randrange(-eta, eta + 1), lambda i, j: rng.randrange(-eta, eta + 1), lambda i, j: rng.randrange(-4095, 4097)))
        # the three byte-string fields rho, K, tr are stored and written back verbatim, whatever they hold: special values (all-00, all-FF,
        # a single non-zero byte) in each field separately and in all three (a "blank field" repair or a sentinel test shows here)
        for fname, a, b_ in (('rho', 0, 32), ('K', 32, 64), ('tr', 64, 128), ('rho, K and tr', 0, 128)):
            for vname, fill in (('all-00', lambda n: bytes(n)), ('all-FF', lambda n: bytes([0xff]) * n), ('00..01', lambda n: bytes(n - 1) + b'\x01'), ('80 00..', lambda n: b'\x80' + bytes(n - 1))):
                sks.append((f'honest coefficients, {fname} = {vname}', sk[:a] + fill(b_ - a) + sk[b_:]))
        for i, (tag, skb) in enumerate(sks):
            cases.append({'line': f"sk_rt {s} bytes:{skb.hex()}", 'tag': 'sk ' + tag, 'want': 'ok ' + skb.hex(), 'model': i < 5 or 'tr = all-00' in tag})
            if 'honest coefficients' in tag and ('tr = all-00' in tag or 'K = all-FF' in tag):
                # ... and the deserialised key signs as FIPS 204 does from those very bytes (tr enters mu, K enters rho'')
                cases.append({'line': f"sign {s} pure bytes:{skb.hex()} {hx(b'field values')} - ok:{'00' * 32}", 'tag': 'sign with sk ' + tag.split(', ')[1],
                              'want': 'ok ' + R.sign(p, skb, b'field values', b'', 'pure', bytes(32)).hex() + ' calls=tryfill32', 'model': False})
        # --- a generated key that is serialised and deserialised is the *same struct* (hence behaves identically)
        for j in range(3 if tier == 'quick' else 40):
            xj = bytes(rng.randrange(256) for _ in range(32))
            cases.append({'line': f"sk_from {s} gen:{xj.hex()}", 'tag': 'struct of generated sk', 'want': None, 'model': j == 0, 'pair': ('sk', s, xj)})
            cases.append({'line': f"sk_from {s} rt:{xj.hex()}", 'tag': 'struct of round-tripped sk', 'want': None, 'model': j == 0, 'pair': ('sk', s, xj)})
            cases.append({'line': f"pk_from {s} gen:{xj.hex()}", 'tag': 'struct of generated pk', 'want': None, 'model': j == 0, 'pair': ('pk', s, xj)})
            cases.append({'line': f"pk_from {s} rt:{xj.hex()}", 'tag': 'struct of round-tripped pk', 'want': None, 'model': j == 0, 'pair': ('pk', s, xj)})
    outs = core.run_and_judge(rep, cases, model_every=0)
    # struct equality gen vs rt
    by = {}
    for c, oc, of in zip(cases, outs['rust_checked'], outs['rust_fast']):
        if 'pair' in c:
            by.setdefault(c['pair'], []).append((c['line'], oc, of))
    for key, lst in by.items():
        (l1, a1, f1), (l2, a2, f2) = lst
        rep.evaluations += 1
        if a1 != a2 or f1 != f2 or not a1.startswith('ok '):
            rep.violation('implementation-vs-oracle', [l1, l2], {'oracle': 'a serialised and deserialised key must be the same struct as the generated one', 'gen': a1[:120], 'rt': a2[:120]}, True)
        else:
            rep.nontrivial.add(('struct-eq',) + key)
    return core.finish(rep, b, 'proof', {
        'rule': 'public keys: all-00, all-FF, t1 = 1023, alternating, uniformly random; private keys: honest, every coefficient at either range end, alternating, zero, random in range; '
                'struct-level comparison of generated versus round-tripped keys; non-trivial = bytes (or struct fields) compared exactly',
        'tie': 'correspondence + property oracle (bytes equal / structs equal)'},
        ['the round trip for all inputs rests on exact NTT inversion (C18) and the codec bijections (C08); proved here: field provenance of the deserialised structs'])
