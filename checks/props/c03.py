"""C03 - signatures are byte-identical to FIPS 204 Sign for the drawn rnd (DESIGN 5 C03)."""
import random
import core, fam
from fam import hx, R


def check(tier, seed):
    rep = core.Report('C03', tier, seed)
    rng = random.Random(seed)
    b = core.prepare('C03', 'Fips204/Props/C03.lean')
    if b.cargo_errs:
        return core.finish(rep, b, 'proof', {}, ['build failed'])
    n = 600 if tier == 'thorough' else 36
    jobs, meta = [], []
    for s in fam.SETS:
        keys = [fam.keypair(s, xi) for xi in fam.seeds(rng, 2)]
        xis = fam.seeds(random.Random(seed), 2)
        msgs = fam.messages(rng, 9)
        ctxs = fam.contexts(rng, 6)
        rr = fam.rnds(rng, 4)
        for i in range(n):
            ki = i % 2
            mode = ('pure', 'sha256', 'sha512', 'shake128', 'internal')[i % 5]
            m, c, r = msgs[i % len(msgs)], ctxs[(i // 2) % len(ctxs)], rr[(i // 3) % len(rr)]
            src = (f"gen:{xis[ki].hex()}", f"rt:{xis[ki].hex()}", f"bytes:{keys[ki][1].hex()}")[i % 3]
            jobs.append(('sign', s, keys[ki][1], m, c, mode, r))
            meta.append((s, mode, src, m, c, r, i))
    # rare events of Algorithm 7 (corpus found with the reference): exactly omega hints, omega - 1, empty last / first hint polynomial
    for s in fam.SETS:
        for tag, xi, sk, pk, m, c, r in fam.rare_sign_cases(s):
            jobs.append(('sign', s, sk, m, c, 'pure', r))
            meta.append((s, 'pure', f"gen:{xi.hex()}", m, c, r, 10 ** 6 + len(meta)))
            jobs.append(('sign', s, sk, m, c, 'sha512', r))
            meta.append((s, 'sha512', f"bytes:{sk.hex()}", m, c, r, 10 ** 6 + len(meta)))
        # one honest signature per Decompose bucket edge (2k+1) gamma2 of w - c s2 + c t0 (corpus): where a rounding constant or reciprocal
        # that is one bit short in Decompose / MakeHint first goes wrong
        for tag, xi, sk, pk, m in fam.bucket_edge_cases(s):
            jobs.append(('sign', s, sk, m, b'', 'pure', bytes(32)))
            meta.append((s, 'pure', f"gen:{xi.hex()}", m, b'', bytes(32), 10 ** 6 + len(meta)))
        # accepted keys key generation never returns: t0 at the ends of its range, where line 28's ||c t0|| >= gamma2 test fires
        for tag, skx, m, c, r in fam.extremal_t0_cases(s):
            for mode in ('pure', 'sha256'):
                jobs.append(('sign', s, skx, m, c, mode, r))
                meta.append((s, mode, f"bytes:{skx.hex()}", m, c, r, 10 ** 6 + len(meta)))
    # messages that imitate framing: OID(PH) || digest-length bytes (what a pre-hash mode puts behind the context) signed as messages, in every mode
    for s in fam.SETS:
        sk0 = fam.keypair(s, fam.seeds(random.Random(seed), 1)[0])[1]
        for oidmode in ('sha256', 'sha512', 'shake128'):
            mim = R.OIDS[oidmode] + R.prehash(oidmode, b'inner message')
            for mode in ('pure', 'sha256', 'sha512', 'shake128'):
                jobs.append(('sign', s, sk0, mim, b'x', mode, bytes(32)))
                meta.append((s, mode, f"bytes:{sk0.hex()}", mim, b'x', bytes(32), 10 ** 6 + len(meta)))
    # long messages in every mode (a pre-hash fed in pieces must absorb every byte): 64 KiB, 64 KiB + 1, 128 KiB
    for s in fam.SETS:
        sk0 = fam.keypair(s, fam.seeds(random.Random(seed), 1)[0])[1]
        for ln, mode in ((65536, 'sha256'), (65536, 'sha512'), (65536, 'shake128'), (131072, ('sha256', 'sha512', 'shake128')[fam.SETS.index(s)]), (65537, 'pure'), (65536, 'pure')):
            big = bytes((i * 5 + ln) % 253 for i in range(ln))
            jobs.append(('sign', s, sk0, big, b'L', mode, bytes(32)))
            meta.append((s, mode, f"bytes:{sk0.hex()}", big, b'L', bytes(32), 10 ** 6 + len(meta)))
    # lengths at which tr || M' (64 + 2 + |ctx| + |M|) ends just before / on / after a SHAKE256 block boundary
    for si, s in enumerate(fam.SETS):
        sk0 = fam.keypair(s, fam.seeds(random.Random(seed), 1)[0])[1]
        for k in (1, 2):
            for t in range(136 * k - 66 - 2, 136 * k - 66 + 3):
                cl = (0, t // 3, t // 2)[(t + si) % 3]
                mm, cc = bytes((13 * i + t) % 256 for i in range(t - cl)), bytes((29 * i + t) % 256 for i in range(cl))
                jobs.append(('sign', s, sk0, mm, cc, 'pure', bytes(32)))
                meta.append((s, 'pure', f"bytes:{sk0.hex()}", mm, cc, bytes(32), 10 ** 6 + len(meta)))
    refs = fam.ref_map(jobs)
    cases = []
    for (s, mode, src, m, c, r, i), sig in zip(meta, refs):
        cases.append({'line': f"sign {s} {mode} {src} {hx(m)} {hx(c)} ok:{r.hex()}", 'tag': f'{mode} {src.split(":")[0]}',
                      'want': f"ok {sig.hex()} calls={'-' if mode == 'internal' else 'tryfill32'}", 'model': i < 5 or i == 10 ** 6 + 2 * n * 3})
    # the signature is a function of the 32 bytes the generator delivers and of nothing else: a generator that fails (any error code,
    # any number of times) yields no signature; one that succeeds at the first request is asked once
    for s in fam.SETS:
        xi0 = fam.seeds(random.Random(seed), 1)[0]
        for mode in ('pure', 'sha512'):
            for sc in ('errbefore', 'errbefore@11+errbefore@11+errbefore@11+errbefore@11', 'errbefore@4+errbefore@4+errbefore@4', 'errafter@11:' + 'cd' * 32 + '+errafter@11:' + 'cd' * 32 + '+errafter@11:' + 'cd' * 32):
                cases.append({'line': f"sign {s} {mode} gen:{xi0.hex()} {hx(b'm')} - {sc}", 'tag': 'sign with a failing generator', 'want': 'err:rng calls=tryfill32', 'model': s == '44'})
    # bulk: many messages under one key against the Lean model (proved equal to Algorithm 7); a disagreement is re-judged by the Python
    # reference. Rare per-coefficient events of an attempt (a Decompose bucket edge, a hint on a corner: 1e-3 .. 1e-4 per signature) are met here.
    for s in fam.SETS:
        xib = fam.seeds(random.Random(seed + 7), 1)[0]
        skb = fam.keypair(s, xib)[1]
        for t in range(4000 if tier == 'thorough' else 260):
            mb = (t * 2654435761 + seed).to_bytes(8, 'little')
            cases.append({'line': f"sign {s} pure gen:{xib.hex()} {hx(mb)} - ok:{'00' * 32}", 'tag': 'sign == model of Algorithm 7 (bulk messages)',
                          'want': (lambda o: 'signing panicked' if o.startswith('panic') else None), 'model': True,
                          'lazy_want': (lambda s=s, skb=skb, mb=mb: 'ok ' + R.sign(R.PARAMS[s], skb, mb, b'', 'pure', bytes(32)).hex() + ' calls=tryfill32')})
    # hook level: the samplers of Algorithm 7 at the counter values a long rejection run would reach (kappa crossing byte
    # boundaries, the u16 range end), compared with the bit-level reference
    for s in fam.SETS:
        p = R.PARAMS[s]
        l = p['l']
        rho = bytes(rng.randrange(256) for _ in range(64))
        mus = sorted(set([0, 1, l, 255 - l, 256 - l, 255, 256, 257, 512 - l, 511, 512, 1000, 4096 - 1, 65535 - l]
                         + [256 * j - i for j in (1, 2, 3) for i in range(0, l + 1)] + [rng.randrange(0, 65535 - l) for _ in range(4)]))
        for mu in mus:
            y = R.expand_mask(p, rho, mu)
            cases.append({'line': f"expand_mask {s} {rho.hex()} {mu}", 'tag': 'expand_mask at counter boundaries', 'want': "|".join(",".join(str(c) for c in poly) for poly in y), 'model': mu in (0, 256 - 1, 256)})
        for t in range(5):
            ct = bytes(rng.randrange(256) for _ in range(p['lam'] // 4)) if t < 3 else bytes([0x00 if t == 3 else 0xFF]) * (p['lam'] // 4)
            c = R.sample_in_ball(p, ct)
            cases.append({'line': f"sample_in_ball 0 {p['tau']} {ct.hex()}", 'tag': 'sample_in_ball', 'want': ",".join(str(x) for x in c), 'model': t == 0})
        # commitment hashes whose SampleInBall consumes unusually many candidate bytes (corpus: the longest rejection runs among 3e6 hashes per set)
        for e in fam.rare_inputs().get('sib_long', {}).get('cases', {}).get(s, []):
            ct = bytes.fromhex(e['c_tilde'])
            cases.append({'line': f"sample_in_ball 0 {p['tau']} {ct.hex()}", 'tag': 'sample_in_ball on a long rejection run', 'want': ",".join(str(x) for x in R.sample_in_ball(p, ct)), 'model': True})
    core.run_and_judge(rep, cases, model_every=0)
    # the literal Lean transcription of Algorithm 7 (Spec.signInternal on Spec.skDecode of the key bytes: what sign_internal_is_Sign_internal_as_written
    # is about) executed on the formatted message M' of Algorithms 2 / 4 (built here, OIDs from the standard), against the crate's signing in every mode
    sc = []
    def strip(o):
        return o.split()[1] if o.startswith('ok ') else o
    for s in fam.SETS:
        sk0 = fam.keypair(s, fam.seeds(random.Random(seed + 3), 1)[0])[1]
        trip = [(mode, fam.messages(rng, 3)[j % 3], (b'', b'ctx', bytes(range(255)))[j % 3], (bytes(32), bytes([0xff]) * 32, bytes(range(32)))[j % 3])
                for j, mode in enumerate(('pure', 'sha256', 'sha512', 'shake128', 'internal') * (4 if tier == 'thorough' else 1))]
        for mode, m, c, r in trip:
            mp = m if mode == 'internal' else R.format_message(mode, m, c)
            cc = b'' if mode == 'internal' else c
            sc.append({'rust': f"sign {s} {mode} bytes:{sk0.hex()} {hx(m)} {hx(cc)} ok:{r.hex()}", 'spec': f"spec_sign {s} {sk0.hex()} {hx(mp)} {r.hex()}",
                       'tag': f'sign ({mode}) == Spec.signInternal executed (literal Lean transcription)', 'map': strip})
        # rare events: exactly omega hints, omega - 1, empty first / last hint polynomial (corpus)
        for tag, xi, sk, pk, m, c, r in fam.rare_sign_cases(s)[:4 if tier == 'thorough' else 2]:
            sc.append({'rust': f"sign {s} pure bytes:{sk.hex()} {hx(m)} {hx(c)} ok:{r.hex()}", 'spec': f"spec_sign {s} {sk.hex()} {hx(R.format_message('pure', m, c))} {r.hex()}",
                       'tag': 'sign (rare hint shapes) == Spec.signInternal executed (literal Lean transcription)', 'map': strip})
    core.spec_judge(rep, sc)
    return core.finish(rep, b, 'proof', {
        'rule': 'one case per (set, key, provenance, mode, message, context, rnd); messages of length 0, 1 and around the SHAKE rate edges, contexts of length 0, 1, 254, 255, '
                'rnd all-00 / all-FF / random; non-trivial = bytes compared with the Python transcription of Algorithms 2, 4, 7',
        'tie': 'translator (guards, domain bytes, OIDs, digest lengths, request size) + correspondence + implementation-vs-oracle'},
        ['checks/ref/mldsa.py transcribes FIPS 204 Algorithms 2, 4, 7 and the OIDs (read from the standard; no vectors exist for the external interface)',
         'Lean: sign_internal = Algorithm 7 with exact arithmetic for every input (Props/C03b); the Python transcription is the independent oracle for the bytes'])
