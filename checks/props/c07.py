"""C07 - the 255-byte context limit is enforced without aliasing (DESIGN 5 C07)."""
import random
import core, fam
from fam import hx, R


def lengths(tier):
    L = [0, 1, 2, 127, 128, 254, 255, 256, 257, 258, 300, 511, 512, 513, 767, 768, 1023, 1024, 65535, 65536, 65537]
    if tier == 'thorough':
        L += list(range(240, 301)) + [1 << 20]
    return sorted(set(L))


def check(tier, seed):
    rep = core.Report('C07', tier, seed)
    rng = random.Random(seed)
    b = core.prepare('C07', 'Fips204/Props/C07.lean')
    if b.cargo_errs:
        return core.finish(rep, b, 'proof', {}, ['build failed'])
    cases = []
    xi = bytes(rng.randrange(256) for _ in range(32))
    msg = b'context limit'
    for s in fam.SETS:
        pk, sk = fam.keypair(s, xi)
        p = R.PARAMS[s]
        for n in lengths(tier):
            ctx = bytes(rng.randrange(256) for _ in range(n))
            for mode in ('pure', 'sha512', 'internal') if n in (255, 256, 257, 512) or tier == 'thorough' else (rng.choice(('pure', 'sha256', 'shake128', 'internal')),):
                if n > 255:
                    # (the property asks for the error and no signature; that no RNG request is made is a theorem about the current source and
                    # part of the model correspondence, not of this oracle)
                    want_s = lambda o: None if o.startswith('err:ctx') else 'signing must return the context error and no signature'
                else:
                    want_s = lambda o: None if o.startswith('ok ') else 'signing must succeed for contexts up to 255 bytes'
                cases.append({'line': f"sign {s} {mode} gen:{xi.hex()} {hx(msg)} {hx(ctx)} ok:{'5a' * 32}", 'tag': f'sign len{"<=255" if n <= 255 else ">255"}', 'want': want_s,
                              'model': n in (255, 256)})
                # a signature that is valid for the *wrapped* length byte must still be rejected with the long context
                mp = bytes([0 if mode in ('pure', 'internal') else 1, n % 256]) + ctx
                if mode == 'pure':
                    sig = R.sign_internal(p, sk, mp + msg, bytes(32))
                elif mode == 'internal':
                    sig = R.sign_internal(p, sk, msg, bytes(32))
                else:
                    sig = R.sign_internal(p, sk, mp + R.OIDS[mode] + R.prehash(mode, msg), bytes(32))
                if n > 255:
                    cases.append({'line': f"verify {s} {mode} bytes:{pk.hex()} {hx(msg)} {hx(ctx)} {sig.hex()}", 'tag': 'verify long ctx, signature over wrapped length byte',
                                  'want': 'false', 'model': n in (256, 257, 512)})
                    # a signature made honestly for the 255-byte prefix: an implementation that truncates instead of rejecting accepts it
                    pre = ctx[:255]
                    mq = bytes([0 if mode in ('pure', 'internal') else 1, 255]) + pre
                    if mode == 'pure':
                        sigp = R.sign_internal(p, sk, mq + msg, bytes(32))
                    elif mode == 'internal':
                        sigp = None
                    else:
                        sigp = R.sign_internal(p, sk, mq + R.OIDS[mode] + R.prehash(mode, msg), bytes(32))
                    if sigp is not None:
                        cases.append({'line': f"verify {s} {mode} bytes:{pk.hex()} {hx(msg)} {hx(ctx)} {sigp.hex()}", 'tag': 'verify long ctx, signature over the 255-byte prefix',
                                      'want': 'false', 'model': n in (256, 257)})
                    if mode == 'pure' and n in (256, 257, 512):
                        # the aliased short context: legitimately a signature for a *different* (ctx, message) pair
                        short = ctx[:n % 256]
                        other = ctx[n % 256:] + msg
                        cases.append({'line': f"verify {s} pure bytes:{pk.hex()} {hx(other)} {hx(short)} {sig.hex()}", 'tag': 'aliased split verifies as its own (ctx, message)', 'want': 'true', 'model': True})
                else:
                    cases.append({'line': f"verify {s} {mode} bytes:{pk.hex()} {hx(msg)} {hx(ctx)} {sig.hex()}", 'tag': 'verify len<=255', 'want': 'true', 'model': n in (0, 255)})
    # the guard alone, in every mode at every length (a guard that depends on the pre-hash function, or on which entry point, shows here)
    for s in fam.SETS:
        for n in sorted(set(lengths(tier) + list(range(250, 300)) + [319, 320, 321, 322, 330, 331, 332, 333, 334, 383, 384])):
            ctx = bytes((7 * i + n) % 251 for i in range(n))
            for mode in fam.MODES + ('internal',):
                if n > 255:
                    w = lambda o: None if o.startswith('err:ctx') else 'signing must return the context error and no signature'
                else:
                    w = lambda o: None if o.startswith('ok ') else 'signing must succeed for contexts up to 255 bytes'
                cases.append({'line': f"sign {s} {mode} gen:{xi.hex()} {hx(msg)} {hx(ctx)} ok:{'5a' * 32}", 'tag': f'sign guard sweep len{"<=255" if n <= 255 else ">255"}', 'want': w,
                              'model': n in (255, 256, 287, 288) and s == '44'})
    core.run_and_judge(rep, cases, model_every=0 if tier == 'quick' else 7)
    # the literal Lean transcription of Algorithms 2-5 (Spec.sign / hashSign / verify / hashVerify: what sign_is_ML_DSA_Sign_as_written and
    # verify_is_ML_DSA_Verify_as_written are about) executed at the lengths around the limit, against the crate
    sc = []
    def smap(o):
        return 'bottom' if o.startswith('err:ctx') else ('ok ' + o.split()[1] if o.startswith('ok ') else o)
    for s in fam.SETS:
        pk, sk = fam.keypair(s, xi)
        for n in (0, 255, 256, 257, 270, 287, 288, 512, 65536 + 3):
            ctx = bytes((5 * i + n) % 253 for i in range(n))
            for mode in fam.MODES:
                if (n + fam.MODES.index(mode)) % 2 and tier != 'thorough' and n not in (255, 256):
                    continue
                sc.append({'rust': f"sign {s} {mode} bytes:{sk.hex()} {hx(msg)} {hx(ctx)} ok:{'00' * 32}", 'spec': f"spec_api_sign {s} {mode} {sk.hex()} {hx(msg)} {hx(ctx)} {'00' * 32}",
                           'tag': 'sign == Spec.sign / Spec.hashSign executed (literal Lean transcription)', 'map': smap})
                # the signature the standard's signer makes for the wrapped length byte / for the 255-byte prefix, offered with the long context
                mp = bytes([0 if mode == 'pure' else 1, n % 256]) + ctx + (msg if mode == 'pure' else R.OIDS[mode] + R.prehash(mode, msg))
                sg = R.sign_internal(R.PARAMS[s], sk, mp, bytes(32)) if n in (255, 256, 287) else bytes(R.sig_len(R.PARAMS[s]))
                sc.append({'rust': f"verify {s} {mode} bytes:{pk.hex()} {hx(msg)} {hx(ctx)} {sg.hex()}", 'spec': f"spec_api_verify {s} {mode} {pk.hex()} {hx(msg)} {hx(ctx)} {sg.hex()}",
                           'tag': 'verify == Spec.verify / Spec.hashVerify executed (literal Lean transcription)', 'map': lambda o: o})
    core.spec_judge(rep, sc)
    return core.finish(rep, b, 'proof', {
        'rule': 'one case per (set, entry point, mode, context length); non-trivial = reached the guard with a well-formed key and, for verification, '
                'a signature that is valid for the (possibly wrapped) length byte',
        'tie': 'translator (guards are Gen.Decisions terms) + correspondence'},
        ['Python reference (checks/ref/mldsa.py) produces the wrapped-length signatures'])
