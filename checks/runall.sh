#!/bin/bash
cd /verif
for p in C01 C02 C03 C04 C05 C06 C07 C08 C09 C10 C11 C12 C13 C14 C15 C16 C17 C18; do
  /usr/bin/time -f "%es" python3 checks/run.py $p --tier quick 2>&1 | grep -E "VIOLATION|KNOWN|^\[C|^[0-9.]+s$" | tr '\n' ' '; echo
done
