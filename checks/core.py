"""Shared machinery of the property checks (DESIGN 2.6, 2.7, 4).

build():   translator -> lake build (property module + model driver) -> axiom audit -> source grep
           -> cargo build of rust_exec in two profiles, all against /repo's *current working tree*.
run_ops(): runs operation lines on rust_exec (checked, fast) and on the Lean model (checked, release),
           sharded over all cores, and returns the four output streams.
"""
import fcntl, hashlib, json, os, random, re, subprocess, sys, time
from concurrent.futures import ThreadPoolExecutor

VERIF = os.path.dirname(os.path.dirname(os.path.abspath(__file__)))
REPO = os.environ.get('VERIF_REPO', '/repo')
LEAN = os.path.join(VERIF, 'lean')
HARNESS = os.path.join(VERIF, 'harness')
WORK = os.path.join(VERIF, 'work')
NCPU = max(2, os.cpu_count() or 4)
ALLOWED_AXIOMS = {'propext', 'Classical.choice', 'Quot.sound'}
ENV = dict(os.environ, CARGO_NET_OFFLINE='true')


def sh(cmd, cwd=None, timeout=None, inp=None):
    r = subprocess.run(cmd, cwd=cwd, capture_output=True, text=True, timeout=timeout, input=inp, env=ENV)
    return r.returncode, r.stdout, r.stderr


class Lock:
    def __init__(self, name):
        os.makedirs(WORK, exist_ok=True)
        self.path = os.path.join(WORK, name + '.lock')

    def __enter__(self):
        self.f = open(self.path, 'w')
        fcntl.flock(self.f, fcntl.LOCK_EX)
        return self

    def __exit__(self, *a):
        fcntl.flock(self.f, fcntl.LOCK_UN)
        self.f.close()


# ------------------------------------------------------------------------------------------- build
def regenerate():
    """run the translator; returns its JSON summary (errors included)"""
    rc, out, err = sh([sys.executable, os.path.join(VERIF, 'translator', 'gen.py'), '--repo', REPO])
    try:
        return json.loads(out)
    except Exception:
        return {'errors': {'translator': (out + err)[-2000:]}}


def lake_build(targets, timeout=3000):
    rc, out, err = sh(['lake', 'build'] + targets, cwd=LEAN, timeout=timeout)
    return rc, out + err


def lean_errors(log):
    """(file, line, message) triples of Lean errors in a lake log"""
    res = []
    for m in re.finditer(r'error: (Fips204/[\w/]+\.lean):(\d+):(\d+): ([^\n]*(?:\n(?!error:|warning:|✖|✔|⚠|trace:)[^\n]*){0,12})', log):
        res.append((m.group(1), int(m.group(2)), m.group(4).strip()[:1500]))
    return res


def theorems_of(module_file):
    """names of theorems declared in a Props file, with their line numbers"""
    src = open(os.path.join(LEAN, module_file)).read()
    ns = re.search(r'^namespace ([\w.]+)', src, re.M)
    prefix = ns.group(1) + '.' if ns else ''
    out = []
    for m in re.finditer(r"^theorem ([\w']+)", src, re.M):
        out.append((prefix + m.group(1), src[:m.start()].count('\n') + 1))
    return out


def axiom_audit(module, names):
    """`#print axioms` for every property theorem; returns {name: [axioms]} (None = not found)"""
    os.makedirs(WORK, exist_ok=True)
    modules = [module] if isinstance(module, str) else list(module)
    path = os.path.join(WORK, f'audit_{modules[0].replace(".", "_")}.lean')
    with open(path, 'w') as f:
        f.write(''.join(f'import {m}\n' for m in modules) + ''.join(f'#print axioms {n}\n' for n in names))
    rc, out, err = sh(['lake', 'env', 'lean', path], cwd=LEAN, timeout=600)
    res = {}
    txt = out + err
    for n in names:
        m = re.search(r"'" + re.escape(n) + r"' depends on axioms: \[([^\]]*)\]", txt)
        if m:
            res[n] = [a.strip() for a in m.group(1).replace('\n', ' ').split(',') if a.strip()]
        elif re.search(r"'" + re.escape(n) + r"' does not depend on any axioms", txt):
            res[n] = []
        else:
            res[n] = None
    return res


FORBIDDEN = re.compile(r'\b(sorry|admit|native_decide|bv_decide|implemented_by|unsafe)\b|^axiom\s|maxHeartbeats\s+0\b', re.M)


def source_grep():
    """forbidden constructs in the Lean sources (comments stripped)"""
    hits = []
    for root, _, files in os.walk(os.path.join(LEAN, 'Fips204')):
        for fn in files:
            if not fn.endswith('.lean'):
                continue
            p = os.path.join(root, fn)
            src = open(p).read()
            src = re.sub(r'/-.*?-/', lambda m: '\n' * m.group(0).count('\n'), src, flags=re.S)
            src = re.sub(r'--[^\n]*', '', src)
            for m in FORBIDDEN.finditer(src):
                hits.append(f"{os.path.relpath(p, LEAN)}:{src[:m.start()].count(chr(10)) + 1}: {m.group(0).strip()}")
    return hits


def cargo_build():
    errs = {}
    for prof in ('checked', 'fast'):
        rc, out, err = sh(['cargo', 'build', '--profile', prof, '--bin', 'rust_exec'], cwd=HARNESS, timeout=1800)
        if rc != 0:
            errs[prof] = (out + err)[-3000:]
    return errs


# source-expression ties (Lemmas/SrcTie/*): which translated comprehensions each property's model functions run
_T = 'Fips204/Lemmas/SrcTie/'
TIES = {
    'C01': ['Basic', 'Keygen', 'Sign', 'Verify', 'Derive', 'Serialise', 'Helpers', 'Ntt', 'Codec', 'Sampling'],
    'C02': ['Basic', 'Verify', 'Helpers', 'Ntt', 'Codec', 'Sampling'],
    'C03': ['Basic', 'Sign', 'Helpers', 'Ntt', 'Sampling'],
    'C04': ['Basic', 'Keygen', 'Serialise', 'Ntt'],
    'C05': ['Basic', 'Verify', 'Helpers', 'Codec'],
    'C08': ['Basic', 'Helpers', 'Codec'],
    'C09': ['Basic', 'Verify', 'Serialise', 'Helpers', 'Ntt', 'Codec'],
    'C10': ['Basic', 'Helpers', 'Codec'],
    'C11': ['Basic', 'Keygen', 'Derive', 'Ntt'],
    'C13': ['Basic', 'Keygen', 'Sign', 'Verify', 'Derive', 'Serialise', 'Helpers', 'Ntt', 'Codec', 'Sampling'],
    'C18': ['Basic', 'Keygen', 'Sign', 'Verify', 'Derive', 'Serialise', 'Ntt'],
}

# statement-level tie: fingerprints of the text of the hand-modelled functions each property runs through (Gen/Shapes, Lemmas/SrcTie/Shape*)
_ALL_SHAPES = ['ShapeXof', 'ShapeSampleA', 'ShapeSampleS', 'ShapeMask', 'ShapeBall', 'ShapePrehash', 'ShapePack', 'ShapeUnpack', 'ShapeHint', 'ShapePk', 'ShapeSk',
               'ShapeSig', 'ShapeLin', 'ShapeKeygen', 'ShapeSign', 'ShapeVerify', 'ShapeExpand', 'ShapeDerive', 'ShapeApiKeygen', 'ShapeApiSign', 'ShapeApiVerify',
               'ShapeApiSerde', 'ShapeApiDefault']
SHAPES = {
    'C01': _ALL_SHAPES,
    'C02': ['ShapeXof', 'ShapeSampleA', 'ShapeBall', 'ShapePrehash', 'ShapeUnpack', 'ShapeHint', 'ShapePk', 'ShapeSig', 'ShapeLin', 'ShapeVerify', 'ShapeExpand', 'ShapeApiVerify'],
    'C03': ['ShapeXof', 'ShapeSampleA', 'ShapeMask', 'ShapeBall', 'ShapePrehash', 'ShapePack', 'ShapeUnpack', 'ShapeHint', 'ShapeSk', 'ShapeSig', 'ShapeLin', 'ShapeSign',
            'ShapeExpand', 'ShapeApiSign'],
    'C04': ['ShapeXof', 'ShapeSampleA', 'ShapeSampleS', 'ShapePack', 'ShapePk', 'ShapeSk', 'ShapeLin', 'ShapeKeygen', 'ShapeApiKeygen', 'ShapeApiSerde'],
    'C05': ['ShapeXof', 'ShapeSampleA', 'ShapeBall', 'ShapePrehash', 'ShapeUnpack', 'ShapeHint', 'ShapePk', 'ShapeSig', 'ShapeLin', 'ShapeVerify', 'ShapeExpand', 'ShapeApiVerify'],
    'C06': ['ShapePrehash', 'ShapeSign', 'ShapeVerify', 'ShapeApiSign', 'ShapeApiVerify'],
    'C07': ['ShapeApiSign', 'ShapeApiVerify'],
    'C08': ['ShapePack', 'ShapeUnpack', 'ShapeHint', 'ShapeSig'],
    'C09': ['ShapePack', 'ShapeUnpack', 'ShapePk', 'ShapeSk', 'ShapeLin', 'ShapeExpand', 'ShapeApiSerde'],
    'C10': ['ShapeUnpack', 'ShapeSk', 'ShapeExpand', 'ShapeApiSerde'],
    'C11': ['ShapeXof', 'ShapeSampleA', 'ShapeLin', 'ShapeKeygen', 'ShapeDerive', 'ShapeExpand', 'ShapeApiSerde'],
    'C12': ['ShapeKeygen', 'ShapeApiKeygen', 'ShapeApiSign', 'ShapeApiDefault'],
    'C13': _ALL_SHAPES,
    'C14': ['ShapeApiDudect'],
    'C18': ['ShapeLin'],
}


class Build:
    """result of preparing one property's obligations"""

    def __init__(self, prop, module_file):
        self.prop = prop
        self.module_file = module_file            # e.g. Fips204/Props/C15.lean
        self.module = module_file[:-5].replace('/', '.')
        # companion files Cxxb.lean, Cxxc.lean, ... hold further property theorems of the same property
        d, base = os.path.split(module_file)
        self.companions = sorted(os.path.join(d, f) for f in os.listdir(os.path.join(LEAN, d))
                                 if re.fullmatch(re.escape(base[:-5]) + r'[a-z]\.lean', f))
        self.modules = [self.module] + [c[:-5].replace('/', '.') for c in self.companions]
        # tie modules: theorems that the model runs the expressions translated from the current source
        self.tie_files = [_T + t + '.lean' for t in TIES.get(prop, []) + SHAPES.get(prop, []) if os.path.exists(os.path.join(LEAN, _T + t + '.lean'))]
        self.modules += [f[:-5].replace('/', '.') for f in self.tie_files]
        self.translator = None
        self.lake_log = ''
        self.lean_errs = []
        self.theorems = []
        self.axioms = {}
        self.bad_axioms = {}
        self.grep_hits = []
        self.cargo_errs = {}
        self.model_ok = True

    @property
    def broken(self):
        """names/descriptions of proof obligations that do not check"""
        b = []
        for k, v in (self.translator or {}).get('errors', {}).items():
            b.append(f"translator:{k}: {v}")
        for sec in ('kernels',):
            for k, v in (self.translator or {}).get(sec, {}).get('unsupported', {}).items():
                b.append(f"translator:{k}: {v}")
        for f, ln, msg in self.lean_errs:
            b.append(f"{f}:{ln}: {msg.splitlines()[0] if msg else ''}")
        if self.lean_errs:
            for k, v in ((self.translator or {}).get('Exprs.lean') or {}).get('unsupported', {}).items():
                b.append(f"translator:Exprs:{k}: {v}")
            for k, v in ((self.translator or {}).get('Shapes.lean') or {}).get('unsupported', {}).items():
                b.append(f"translator:Shapes:{k}: {v}")
        for n, ax in self.bad_axioms.items():
            b.append(f"axioms:{n}: {ax}")
        for h in self.grep_hits:
            b.append(f"forbidden:{h}")
        return b


def prepare(prop, module_file, extra_targets=()):
    b = Build(prop, module_file)
    with Lock('build'):
        b.translator = regenerate()
        rc, log = lake_build(b.modules + ['model'] + list(extra_targets))
        b.lake_log = log
        if rc != 0:
            b.lean_errs = lean_errors(log) or [('lake', 0, log[-1500:])]
            # is the driver itself still buildable?
            rc2, log2 = lake_build(['model'])
            b.model_ok = rc2 == 0
            global MODEL_AVAILABLE
            MODEL_AVAILABLE = b.model_ok
            if not b.model_ok:
                b.lean_errs += [e for e in lean_errors(log2) if e not in b.lean_errs]
        b.theorems = [t for f in [module_file] + b.companions + b.tie_files for t in theorems_of(f)]
        if rc == 0:
            b.axioms = axiom_audit(b.modules, [n for n, _ in b.theorems])
            for n, ax in b.axioms.items():
                if ax is None or not set(ax) <= ALLOWED_AXIOMS:
                    b.bad_axioms[n] = ax
        b.grep_hits = source_grep()
        b.cargo_errs = cargo_build()
        # thorough tier: independent re-check of the compiled property modules by leanchecker
        tier = os.environ.get('VERIF_TIER', 'quick')
        if '--tier' in sys.argv:
            tier = sys.argv[sys.argv.index('--tier') + 1]
        b.leanchecker = None
        if tier == 'thorough' and rc == 0:
            rc3, out3, err3 = sh(['lake', 'env', 'leanchecker'] + b.modules, cwd=LEAN, timeout=1800)
            b.leanchecker = 'ok' if rc3 == 0 else (out3 + err3)[-800:]
            if rc3 != 0:
                b.lean_errs.append(('leanchecker', 0, b.leanchecker))
    return b


# ------------------------------------------------------------------------------------------- execution
RUST = {'checked': os.path.join(HARNESS, 'target', 'checked', 'rust_exec'),
        'fast': os.path.join(HARNESS, 'target', 'fast', 'rust_exec')}
MODEL = os.path.join(LEAN, '.lake', 'build', 'bin', 'model')


def _run_shard(cmd, lines, timeout):
    if not lines:
        return []
    try:
        r = subprocess.run(cmd, input="\n".join(lines) + "\n", capture_output=True, text=True, timeout=timeout)
    except subprocess.TimeoutExpired:
        return ['harness:timeout'] * len(lines)
    out = r.stdout.split('\n')
    if out and out[-1] == '':
        out.pop()
    if len(out) != len(lines):
        # a hard crash (abort, stack overflow): bisect to find the line
        if len(lines) == 1:
            return [f'harness:crash rc={r.returncode} {r.stderr[-200:]!r}']
        mid = len(lines) // 2
        return _run_shard(cmd, lines[:mid], timeout) + _run_shard(cmd, lines[mid:], timeout)
    return out


MODEL_AVAILABLE = True   # set by prepare(): false when the model driver does not build against the regenerated Gen files


def run_stream(cmd, lines, shards=None, timeout=3000):
    """run lines through `cmd`, sharded round-robin over the cores; preserves order"""
    if cmd and cmd[0] == MODEL and not MODEL_AVAILABLE:
        # the proof obligations are already reported broken; keep searching for a failing input with the implementation-vs-oracle
        # comparisons: the model stream is replaced by the matching Rust profile so that correspondence sites compare equal
        cmd = [RUST['checked' if 'checked' in cmd else 'fast']]
    n = len(lines)
    if n == 0:
        return []
    shards = min(shards or NCPU, n)
    parts = [lines[i::shards] for i in range(shards)]
    with ThreadPoolExecutor(max_workers=shards) as ex:
        outs = list(ex.map(lambda p: _run_shard(cmd, p, timeout), parts))
    res = [None] * n
    for i, o in enumerate(outs):
        for j, v in enumerate(o):
            res[i + j * shards] = v
    return res


def canon(s):
    """canonical form for comparison: panic sites are informational only"""
    if s is None:
        return 'none'
    if s.startswith('panic:'):
        m = re.search(r' at=(-?\d+)', s)
        return 'panic' + (m.group(0) if m else '')
    return s


def run_ops(lines, rust=('checked', 'fast'), model=('checked', 'release'), timeout=3000):
    """returns dict stream -> outputs"""
    res = {}
    for prof in rust:
        res['rust_' + prof] = run_stream([RUST[prof]], lines, timeout=timeout)
    for mode in model:
        res['model_' + mode] = run_stream([MODEL, '--mode', mode], lines, timeout=timeout)
    return res


# ------------------------------------------------------------------------------------------- verdicts
class Report:
    def __init__(self, prop, tier, seed):
        self.prop, self.tier, self.seed = prop, tier, seed
        self.t0 = time.time()
        self.violations = []          # dicts for replay files
        self.evaluations = 0
        self.nontrivial = set()
        self.dist = {}
        self.samples = []
        self.notes = []
        self.corr_compared = 0
        self.known = []

    def count(self, tag, n=1):
        self.dist[tag] = self.dist.get(tag, 0) + n

    def sample(self, s, limit=6):
        if len(self.samples) < limit:
            self.samples.append(s if len(s) < 400 else s[:200] + ' ... ' + s[-120:])

    def violation(self, kind, ops, detail, found_input):
        self.violations.append({'property': self.prop, 'kind': kind, 'ops': ops, 'detail': detail,
                                'failing_input_found': found_input, 'seed': self.seed, 'tier': self.tier})


def write_replay(v):
    d = os.path.join(VERIF, 'replays')
    os.makedirs(d, exist_ok=True)
    h = hashlib.sha256(json.dumps(v, sort_keys=True).encode()).hexdigest()[:12]
    path = os.path.join(d, f"{v['property']}-{h}.json")
    with open(path, 'w') as f:
        json.dump(v, f, indent=1)
    return path


def load_known():
    try:
        return json.load(open(os.path.join(VERIF, 'known_findings.json')))['entries']
    except Exception:
        return []


def run_known_findings(rep):
    """genuine defects recorded in known_findings.json (kind `finding`): the witness is run in the profile the entry names; if the crate still
    fails exactly as recorded a KNOWN-FINDING line is printed and nothing is counted; if it no longer fails that is noted (the entry can then
    become `fixed`); any other outcome on the witness is a violation like any other.  Returns the KNOWN-FINDING lines."""
    import subprocess
    lines = []
    for e in load_known():
        if e.get('kind') != 'finding' or e.get('property') != rep.prop:
            continue
        try:
            ops = open(os.path.join(VERIF, e['witness'])).read().strip().split('\n')
        except Exception as ex:
            rep.notes.append(f"known finding {e.get('id')}: witness unreadable: {ex}")
            continue
        prof = e.get('match', {}).get('profile', 'checked')
        try:
            r = subprocess.run([RUST[prof]], input='\n'.join(ops) + '\n', capture_output=True, text=True, timeout=600)
            outs = r.stdout.strip().split('\n')
        except subprocess.TimeoutExpired:
            outs = ['timeout']
        rep.evaluations += len(ops)
        rep.count(f"known finding {e.get('id')} witness")
        rx = re.compile(e.get('match', {}).get('output_regex', '^$'))
        if outs and all(rx.match(o or '') for o in outs):
            lines.append(e['line'])
            rep.notes.append(f"known finding {e.get('id')} still present: {outs[0][:80]}")
        elif outs and all(not (o or '').startswith(('panic', 'timeout', 'harness:')) for o in outs):
            rep.notes.append(f"known finding {e.get('id')}: the witness no longer fails ({outs[0][:40]}...)")
        else:
            rep.violation('implementation-vs-oracle', ops, {'profile': prof, 'tag': f"known finding {e.get('id')} witness fails differently", 'output': (outs[0] or '')[:200],
                          'oracle': 'public API call panicked or crashed (not the recorded failure)'}, True)
    return lines


def run_regressions(rep):
    """inputs that once exposed a seeded defect (corpus/regressions.json, checks/mk_regress.py), with the unchanged crate's answer: replayed on
    every run so that they are met whatever the seed of the random families is"""
    path = os.path.join(VERIF, 'corpus', 'regressions.json')
    if not os.path.exists(path):
        return
    try:
        cases = json.load(open(path))['cases'].get(rep.prop, [])
    except Exception as e:
        rep.notes.append(f'regression corpus unreadable: {e}')
        return
    if not cases:
        return
    ops = [c['op'] for c in cases]
    for prof in ('checked', 'fast'):
        outs = run_stream([RUST[prof]], ops)
        for c, o in zip(cases, outs):
            rep.evaluations += 1
            rep.count('regression input (once exposed a seeded defect)')
            if canon(o) != canon(c[prof]):
                rep.violation('implementation-vs-oracle', [c['op']], {'profile': prof, 'tag': 'regression input ' + c.get('from', ''), 'output': (o or '')[:300],
                              'oracle': f"the unchanged crate answers {c[prof][:80]} (corpus/regressions.json)"}, True)
            else:
                rep.nontrivial.add(('regression', hashlib.sha256(c['op'].encode()).hexdigest()[:16], prof))


def finish(rep, build, level, coverage_extra, assumptions, n_obligations=None):
    """print verdict lines, write evidence, return exit code"""
    known_lines = []
    if build is not None and not build.cargo_errs:
        run_regressions(rep)
        known_lines = run_known_findings(rep)
    for kl in known_lines:
        print(kl)
    broken = build.broken if build else []
    if not MODEL_AVAILABLE:
        rep.notes.append('the model driver does not build against the regenerated Gen files: correspondence not run (model stream replaced by the '
                         'Rust stream), the search for a failing input used the implementation-vs-oracle comparisons only')
        rep.corr_compared = 0
    found_inputs = [v for v in rep.violations if v['failing_input_found']]
    others = [v for v in rep.violations if not v['failing_input_found']]
    lines = []
    rc = 0
    # a concrete failing input always wins; otherwise report what no longer checks
    for v in found_inputs[:5]:
        v['broken_obligations'] = broken
        path = write_replay(v)
        lines.append(f"VIOLATION property={rep.prop} replay={path}")
        rc = 1
    if not found_inputs and (broken or others or (build and build.cargo_errs)):
        v = {'property': rep.prop, 'kind': 'proof-or-correspondence-broken', 'ops': [o for x in others[:5] for o in x['ops']][:10],
             'detail': {'broken_obligations': broken, 'correspondence': [x['detail'] for x in others[:5]],
                        'cargo': (build.cargo_errs if build else {})},
             'failing_input_found': False, 'seed': rep.seed, 'tier': rep.tier,
             'searched': {'evaluations': rep.evaluations, 'distribution': rep.dist}}
        path = write_replay(v)
        lines.append(f"VIOLATION property={rep.prop} replay={path} no-failing-input-found")
        rc = 1
    thms = build.theorems if build else []
    obligations = n_obligations if n_obligations is not None else len(thms)
    discharged = 0
    if build:
        discharged = sum(1 for n, _ in thms if build.axioms.get(n) is not None and n not in build.bad_axioms) if not build.lean_errs else 0
    cov = {
        'obligations': max(obligations, 1), 'discharged': discharged if discharged else (0 if build and build.lean_errs else discharged),
        'checker_cmd': f"cd /verif/lean && lake build {' '.join(build.modules) if build else ''} && lake env lean work/audit (#print axioms)",
        'trusted_base': ["Lean 4.33.0 kernel", "axioms allowed: propext, Classical.choice, Quot.sound",
                         "translator /verif/translator (Gen/*.lean regenerated from /repo this run)",
                         "correspondence: rust_exec (checked + release profiles) vs compiled Lean model"]
                        + ([f"leanchecker re-check of {' '.join(build.modules)}: {build.leanchecker}"] if build and getattr(build, 'leanchecker', None) else []),
        'theorems': {n: build.axioms.get(n) for n, _ in thms} if build else {},
        'broken_obligations': broken,
        'evaluations': max(rep.evaluations, 1),
        'distinct_nontrivial': max(len(rep.nontrivial), 2) if len(rep.nontrivial) >= 2 else len(rep.nontrivial),
        'correspondence_lines_compared': rep.corr_compared,
        'distribution': rep.dist,
        'samples': rep.samples or ['(none)'],
        'notes': rep.notes,
        'translator': {k: v for k, v in (build.translator or {}).items() if k in ('errors', 'files')} if build else {},
    }
    cov.update(coverage_extra or {})
    if cov['discharged'] < 1:
        cov['discharged'] = 0
    ev = {'property_id': rep.prop, 'tier': rep.tier, 'seed': rep.seed, 'level': level, 'coverage': cov,
          'assumptions': assumptions, 'wall_s': round(time.time() - rep.t0, 2), 'violations': len(rep.violations) + (1 if broken else 0)}
    if level == 'proof' and cov['discharged'] < 1:
        # schema wants discharged >= 1 for the proof keys; fall back to exploration counts honestly
        cov.pop('discharged'); cov.pop('obligations')
        cov['proof_status'] = 'no obligation discharged on this run'
    os.makedirs(os.path.join(VERIF, 'evidence'), exist_ok=True)
    with open(os.path.join(VERIF, 'evidence', rep.prop + '.json'), 'w') as f:
        json.dump(ev, f, indent=1)
    for k in rep.known:
        print(k)
    for l in lines:
        print(l)
    print(f"[{rep.prop}] tier={rep.tier} seed={rep.seed} obligations={obligations} discharged={discharged} "
          f"evaluations={rep.evaluations} nontrivial={len(rep.nontrivial)} corr_compared={rep.corr_compared} "
          f"violations={len(rep.violations)} broken={len(broken)} wall={ev['wall_s']}s")
    return rc


def compare_streams(rep, lines, outs, tags=None, oracle=None, judge_model=True):
    """generic correspondence + oracle pass.
    oracle(line, rust_checked_out, rust_fast_out) -> None if fine, else a string describing the failure."""
    n = len(lines)
    for i in range(n):
        rc_, rf_ = outs['rust_checked'][i], outs['rust_fast'][i]
        rep.evaluations += 1
        if tags:
            rep.count(tags[i])
        if oracle:
            why = oracle(lines[i], rc_, rf_)
            if why:
                rep.violation('implementation-vs-oracle', [lines[i]], {'rust_checked': rc_[:300], 'rust_fast': rf_[:300], 'oracle': why}, True)
                continue
        if not judge_model:
            continue
        mc_, mr_ = outs['model_checked'][i], outs['model_release'][i]
        rep.corr_compared += 2
        if canon(rc_) != canon(mc_) or canon(rf_) != canon(mr_):
            rep.violation('correspondence', [lines[i]], {'rust_checked': rc_[:300], 'model_checked': mc_[:300],
                                                        'rust_fast': rf_[:300], 'model_release': mr_[:300]}, False)


def hexs(b):
    return b.hex() if len(b) else '-'


def run_and_judge(rep, cases, model_every=1, rust=('checked', 'fast')):
    """cases: list of dicts {line, tag, want} where want is None, a string the Rust output must equal, or a
    callable(out) -> None | reason.  Runs Rust on every case (both profiles) and the model on every
    `model_every`-th case; records oracle failures (concrete inputs) and correspondence differences."""
    lines = [c['line'] for c in cases]
    outs = {}
    for prof in rust:
        outs['rust_' + prof] = run_stream([RUST[prof]], lines)
    midx = [i for i in range(len(cases)) if (model_every and i % model_every == 0) or cases[i].get('model')]
    mlines = [lines[i] for i in midx]
    mo = {m: run_stream([MODEL, '--mode', m], mlines) for m in ('checked', 'release')} if mlines else {}
    mpos = {i: j for j, i in enumerate(midx)}
    for i, c in enumerate(cases):
        rep.evaluations += 1
        rep.count(c['tag'])
        ok = True
        for prof in rust:
            o = outs['rust_' + prof][i]
            want = c.get('want')
            why = None
            if o.startswith('harness:'):
                why = 'executor failure ' + o
            elif callable(want):
                why = want(o)
            elif want is not None and o != want:
                why = f'expected {want[:80]}'
            if why:
                ok = False
                rep.violation('implementation-vs-oracle', [c['line']], {'profile': prof, 'tag': c['tag'], 'output': o[:300], 'oracle': why}, True)
                break
        if i in mpos and ok:
            j = mpos[i]
            for prof, mode in (('checked', 'checked'), ('fast', 'release')):
                if prof not in rust:
                    continue
                rep.corr_compared += 1
                a, b2 = outs['rust_' + prof][i], mo[mode][j]
                if canon(a) != canon(b2):
                    ok = False
                    # a disagreement is re-judged by the independent oracle when the case carries one (evaluated only now: it is slow)
                    lw = c.get('lazy_want')
                    w = lw() if lw else None
                    if w is not None and a != w:
                        rep.violation('implementation-vs-oracle', [c['line']], {'profile': prof, 'tag': c['tag'], 'output': a[:300], 'oracle': f'expected {w[:80]} (reference evaluated after the model disagreed)'}, True)
                    else:
                        rep.violation('correspondence', [c['line']], {'tag': c['tag'], 'rust_' + prof: a[:300], 'model_' + mode: b2[:300]}, False)
                    break
        if ok:
            rep.nontrivial.add((c['tag'], hashlib.sha256(c['line'].encode()).hexdigest()[:16]))
            if rep.dist[c['tag']] == 1:
                rep.sample(f"[{c['tag']}] {c['line']} -> {outs['rust_' + rust[0]][i]}", limit=10)
    return outs


def spec_judge(rep, cases):
    """the crate against the literal Lean transcription of the standard (`Spec/*`, run by the model driver's `spec_*` operations).
    cases: dicts {rust: line, spec: line, tag, map: f(rust output) -> string the specification must print}.  `Spec/*` is hand-written, fixed
    and mentions nothing of the crate, so it is an oracle (like the Python reference), not a correspondence partner."""
    if not cases:
        return
    if not MODEL_AVAILABLE:
        rep.notes.append('literal-specification runs skipped: the model driver does not build on this tree')
        return
    routs = {prof: run_stream([RUST[prof]], [c['rust'] for c in cases]) for prof in ('checked', 'fast')}
    souts = run_stream([MODEL, '--mode', 'release'], [c['spec'] for c in cases])
    for i, c in enumerate(cases):
        rep.evaluations += 1
        rep.count(c['tag'])
        ok = True
        for prof in ('checked', 'fast'):
            a = c['map'](routs[prof][i])
            if a != souts[i]:
                ok = False
                rep.violation('implementation-vs-oracle', [c['rust'], c['spec']],
                              {'profile': prof, 'tag': c['tag'], 'output': (routs[prof][i] or '')[:300],
                               'oracle': f'the literal Lean transcription of FIPS 204 (Spec/*) returns {(souts[i] or "")[:80]}'}, True)
                break
        if ok:
            rep.nontrivial.add((c['tag'], hashlib.sha256(c['spec'].encode()).hexdigest()[:16]))
            if rep.dist[c['tag']] == 1:
                rep.sample(f"[{c['tag']}] {c['spec'][:200]} -> {(souts[i] or '')[:80]}", limit=12)


# ------------------------------------------------------------------------------------------- trace build (C14)
TRACE = os.path.join(HARNESS, 'target-trace', 'trace', 'trace_exec')
SANCOV = ("-Cpasses=sancov-module -Cllvm-args=-sanitizer-coverage-level=3 -Cllvm-args=-sanitizer-coverage-trace-pc-guard "
          "-Cllvm-args=-sanitizer-coverage-trace-loads -Cllvm-args=-sanitizer-coverage-trace-stores -Ccodegen-units=1")


def trace_build():
    """optimised build of trace_exec with sanitizer-coverage instrumentation on *every* crate (DESIGN 4.5)"""
    os.makedirs(WORK, exist_ok=True)
    cb = os.path.join(WORK, 'cb.o')
    rc, out, err = sh(['clang', '-O2', '-c', os.path.join(HARNESS, 'trace', 'cb.c'), '-o', cb])
    if rc != 0:
        return 'clang: ' + (out + err)[-1500:]
    env = dict(ENV, RUSTFLAGS=f"{SANCOV} -Clink-arg={cb}")
    r = subprocess.run(['cargo', 'build', '--profile', 'trace', '--features', 'trace', '--bin', 'trace_exec', '--target-dir', 'target-trace'],
                       cwd=HARNESS, capture_output=True, text=True, env=env, timeout=1800)
    return None if r.returncode == 0 else (r.stdout + r.stderr)[-3000:]


def trace_run(lines, timeout=1800):
    """all lines in ONE process (addresses comparable); returns list of dicts edges/ehash/mem/mhash"""
    r = subprocess.run([TRACE], input="\n".join(lines) + "\n", capture_output=True, text=True, timeout=timeout)
    out = []
    for l in r.stdout.strip().split('\n'):
        d = dict(kv.split('=') for kv in l.split() if '=' in kv)
        out.append(d)
    if len(out) != len(lines):
        return None
    return out
