#!/usr/bin/env python3
"""Regenerates /verif/MANIFEST.json from the table below (run after claiming or withdrawing a property)."""
import json, os
VERIF = os.path.dirname(os.path.dirname(os.path.abspath(__file__)))

TB = ("Trusted: Lean 4.33.0 kernel; axioms propext / Classical.choice / Quot.sound only (audited with #print axioms on every run); "
      "translator /verif/translator (validated by executing its output against the crate); Rust integer semantics in Fips204/Basic.lean; "
      "correspondence = differential execution of the compiled Lean model against the real crate in two build profiles; ")

CLAIMS = {
 'C15': dict(cat='proof', ref='DESIGN 5 C15, 3.1',
   text="Lean theorems (every input of the documented domain, both build modes) about the scalar kernels as translated from the Rust source on every run: "
        "partial/full reduction, mod+-, Montgomery reduction, Power2Round, Decompose/HighBits/LowBits, MakeHint, UseHint, CoeffFromThreeBytes, CoeffFromHalfByte "
        "equal the FIPS 204 definitions; partial_reduce64 (on its caller's shape) is congruent and inside (-2q, 2q) on its whole documented domain - the two top slices, where a*M comes within 119 units of i64 overflow, "
        "by kernel evaluation of every value (decide +kernel, no extra axiom).",
   note=TB + "Spec/Arith.lean = FIPS 204 Algorithms 14, 15, 35-40, 49.",
   tech="Lean 4 proof over translated kernels (omega, interval case split); translator tie; exhaustive/strided differential sweeps against the crate and a big-integer oracle"),
 'C07': dict(cat='proof', ref='DESIGN 5 C07',
   text="Lean theorems for every context length: all three signing entry points return the context error with an empty RNG log, all three verifying entry points return false, "
        "when |ctx| > 255; no context of at most 255 bytes is rejected as too long; the one-byte length field is injective on 0..255. Guards are terms translated from src/lib.rs.",
   note=TB + "API-layer model Impl/Api.lean is hand-written and tied by correspondence on every length in the family (incl. signatures made over the wrapped length byte).",
   tech="Lean 4 proof over translated guard expressions + differential execution on boundary lengths and wrapped-length forgeries"),
 'C12': dict(cat='proof', ref='DESIGN 5 C12',
   text="Lean theorems over the RNG automaton of the API model: every failing script (error before writing, after a partial write, empty) makes keygen / sign / hash-sign return Err with call log "
        "[try_fill_bytes(32)] and no output; the 32 bytes drawn reach KeyGen_internal / Sign_internal unchanged and enter H(K||rnd||mu) injectively. Partial: that different hash inputs give different "
        "outputs is a property of SHAKE256 (C12_full stated, not proved); OsRng freshness is observed only.",
   note=TB + "request size / method / error propagation are Gen constants extracted from the three randomised entry points; fault-injecting RngCore in the harness panics in infallible methods.",
   tech="Lean 4 proof over an RNG-script automaton + fault-injection differential execution + 257 one-bit draw variations per entry point"),
 'C03': dict(cat='proof', ref='DESIGN 5 C03',
   text="Lean theorems for all inputs and all oracles (both build modes): the external layer is exactly Algorithms 2 / 4 around the internal function - context guard, one 32-byte draw handed over "
        "unchanged as rnd, M' = domain byte, one-byte length, ctx, then M or OID||PH(M) with the standard's OIDs and digest lengths (neither truncated nor padded) - and the signature depends on nothing but "
        "(sk, message, context, mode, rnd); and sign_internal is Algorithm 7 written with exact arithmetic modulo q (signing_is_algorithm_7: for every private key deserialisation accepts - and generated_key_signing_is_algorithm_7 for generated keys - "
        "every message, context, pre-hash and rnd, within fuel*l <= 65535 attempts: ExpandMask, w = NTT^-1(A_hat.NTT(y)) by exact butterflies, HighBits, c~, SampleInBall, c*s1 / c*s2 / c*t0 as canonical negacyclic products, z centred, LowBits, "
        "the two rejection tests as written in the source (regenerated on every run and proved to be lines 23 / 28), MakeHint, sigEncode). On every run the crate is compared byte for byte with a Python transcription of FIPS 204 and with the Lean model, "
        "including messages whose signature has exactly omega hints, omega-1, an empty first / last hint polynomial (corpus).",
   note=TB + "checks/ref/mldsa.py (FIPS 204 Algorithms 2, 4, 7, OIDs read from the standard) is the oracle for the unproved part.",
   tech="Lean 4 proof that sign_internal equals Algorithm 7 with exact arithmetic mod q + proof of the external formatting layer over translated constants + differential execution against a FIPS 204 reference (all modes, key provenances, rate-edge message lengths)"),
 'C04': dict(cat='proof', ref='DESIGN 5 C04',
   text="Lean theorems for every seed (both build modes): generating a pair from a seed and serialising both keys returns exactly the bytes of Algorithm 6 written with exact arithmetic modulo q (key_generation_is_algorithm_6: "
        "H(xi||k||l) split, ExpandS, ExpandA, t = NTT^-1(A_hat.NTT(s1)) + s2 mod q by exact butterflies, Power2Round, pkEncode, tr = H(pk), skEncode), as values of the model's result type (so it never panics); the RNG-driven key generation "
        "is the seeded one on the 32 bytes drawn (or Err) and ignores the rest of the generator. It and the crate are compared on every run with a Python "
        "transcription of Algorithm 6 through both entry points (byte level) and at struct level, including seeds that hit rare sampler events (corpus).",
   note=TB + "checks/ref/mldsa.py (Algorithm 6) is the oracle for the unproved part.",
   tech="Lean 4 proof that keygen + serialisation equals Algorithm 6 with exact arithmetic mod q (NTT pipeline semantics, key round trips) + RNG wrapper theorems + byte-exact differential execution against a FIPS 204 reference"),
 'C06': dict(cat='proof', ref='DESIGN 5 C06',
   text="Lean theorems for arbitrary oracles: the formatted-message encoding is injective in (context, message) for pure mode and in (context, OID, digest) for pre-hash mode, pure and pre-hash encodings never coincide, "
        "the three generated OIDs are pairwise distinct and of equal length; hence two different interpretations (message, context, mode/PH) of a signed string hash different inputs tr||M' unless they exhibit an explicit "
        "pre-hash collision, and the verifier's mu is H(tr||M') of exactly the interpretation it is asked about.",
   note=TB + "cross-acceptance therefore needs a SHAKE256 or pre-hash collision; the confusion family (all splits, all other modes, crafted mimicry) is executed on the crate on every run.",
   tech="Lean 4 proof of encoding injectivity over translated OIDs/domain bytes + exhaustive alternative-interpretation runs per signed string"),
 'C01': dict(cat='proof', ref='DESIGN 5 C01',
   text="Lean theorem for every input + differential execution. sign_then_verify (Props/C01c): for every hash oracle, every seed, message, context, pre-hash, rnd, both build modes and the three parameter sets, whenever the model of the crate's sign_internal returns a signature "
        "under the key pair key_gen_internal produced, the model of verify_internal returns true on it; sign_then_verify_any_provenance: the private key may be the generated struct or the one deserialised from its bytes, the public key the generated struct, the one deserialised "
        "from its bytes or the one derived from the private key; api_sign_then_verify / api_hash_sign_then_verify: the same for try_sign_with_rng + verify and try_hash_sign_with_rng + hash_verify under every RNG script. No bound on sizes; the proof composes C04 (what key generation stores: t = A s1 + s2, (t1, t0) = Power2Round(t)), "
        "C03 (sign_internal is Algorithm 7 with exact arithmetic), C02 (verify_internal is Algorithm 8) with the specification-level completeness theorem signature_verifies_spec, itself from: NTT and inverse NTT mutually inverse modulo q over the generated zeta table; the verifier's ring identity "
        "NTT^-1(A_hat.NTT(z) - NTT(c).NTT(t1 2^d)) = A y - c s2 + c t0 row by row (by evaluation at the 256 roots); UseHint(MakeHint(z, r), r) = HighBits(r + z) and stability of HighBits below the LowBits margin; ||c s|| <= tau eta for every challenge; the rejection loop returns an accepted attempt; "
        "sigDecode(sigEncode(c~, z, h)) = (c~, z, h) (new: hint_bit_unpack after hint_bit_pack, bit_unpack after bit_pack). What 'returns a signature' leaves open: the model's loop is bounded by fuel * l <= 65535 (the crate's 16-bit counter), the crate loops until acceptance. "
        "Decided on every run as well by verify(sign(..)) = true on the crate itself over all modes, sets and 2 x 4 key-provenance pairs, plus model agreement on a sample.",
   note=TB + "the theorem is about the hand-written Lean model of the crate; its tie to the source is the translator (constants, zeta table, parameter sets, decision expressions) and the correspondence run.",
   tech="Lean 4 proof of sign-then-verify on the model of key_gen_internal / sign_internal / verify_internal and the API wrappers (ring identity, hint duality, norm bounds, rejection loop, codec inverses) + round-trip execution on the crate over all (mode, set, sk provenance, pk provenance) combinations"),
 'C02': dict(cat='proof', ref='DESIGN 5 C02',
   text="Lean theorem for every input (both build modes): for each parameter set, every public-key byte string, message, context, pre-hash and every byte string of signature length, verify_internal on the struct expand_public built returns exactly what "
        "Algorithm 8 returns when written with exact arithmetic modulo q (verification_is_algorithm_8: sigDecode; SampleInBall; ExpandA; w' = NTT^-1(A_hat.NTT(z) - NTT(c).NTT(t1*2^d)) by exact butterflies; UseHint; w1Encode; "
        "norm and hash tests), and verify / hash_verify add the context-length rejection and message formatting of Algorithms 3 / 5 (verify_is_algorithm_3, hash_verify_is_algorithm_5). The generated zeta table holds the FIPS 204 zetas "
        "(kernel evaluation). The four rejecting conditions the property names are separate theorems (accept_implies, malformed_encoding_rejected, large_norm_rejected, long_context_rejected). The Lean specification is short and is itself "
        "compared on every run (through the model) with a Python transcription of Algorithms 3, 5, 8 and with the crate on constructed boundary cases: forgeries under a t1 = 0 key with the norm one below / at the bound, hint weight "
        "0..omega, every class of hint-section malformation, one-bit changes per section, long contexts.",
   note=TB + "Spec/* (the literal transcription) is trusted to read as the standard and is compared on every run, through the crate, with the independent Python one; checks/ref/mldsa.py (Algorithms 3, 5, 8) is the independent execution oracle.",
   tech="Lean 4 proof that verify_internal equals Algorithm 8 with exact arithmetic mod q (NTT pipeline semantics) + rejecting-condition theorems + boundary cases judged by a FIPS 204 reference"),
 'C05': dict(cat='proof', ref='DESIGN 5 C05',
   text="Lean theorems (everything that is not a statement about SHAKE256 itself) + exhaustive flip runs. The property as stated is false of any hash function with collisions, so the theorems say what a second accepted tuple would be, for every oracle, key byte string and input, on the model of verify / hash_verify / verify_internal (through C02, verify_internal = Algorithm 8): "
        "(1) hint_section_change_needs_collision - two different signature strings with the same c~ and z that both decode (so they differ in hint counts, indices or padding) and both verify under the same key and message exhibit two different inputs on which H agrees (from C08's sig_encode(sig_decode) = id, UseHint(1, r) != UseHint(0, r) for every r, and injectivity of w1Encode); "
        "(2) changed_interpretation_needs_collision - one signature accepted for two different (context, message, mode) interpretations with contexts <= 255 bytes is a pre-hash collision or a collision of H; (3) changed_public_key_needs_collision - one (message, context, signature) accepted under two different public-key strings is a collision of H (on the keys, on tr||M', or on mu||w1). "
        "Not a collision statement, hence not provable without assumptions on SHAKE256 and A: flips inside c~ and z (acceptance there is the fixed-point equation c~ = H(mu || w1(c~, z))). Every single-bit position of sig, pk, message and context of sampled valid tuples (honest and forged with a dense hint section) is run on the crate: exploration, exhaustive per tuple.",
   note=TB + "an exception would be a SHAKE256 collision; tuple count per run is stated in the evidence.",
   tech="Lean 4 proofs that a second accepted tuple differing in the hint section, the interpretation or the public key is an explicit hash collision + exhaustive single-bit mutation of sampled valid tuples on the crate"),
 'C08': dict(cat='proof', ref='DESIGN 5 C08',
   text="Lean theorems for every byte string, at full parameters, both build modes: (1) for each parameter set, every signature byte string that sig_decode accepts is reproduced byte for byte by sig_encode of the decoded (c~, z, h), hence two "
        "different byte strings are never read as the same signature; (2) bit_pack(bit_unpack(v)) = v for every accepted v and bit_unpack(bit_pack(w)) = w for every in-range w, for every (a, b) with a + b < 2^bitlen - a bijection "
        "(value-tracking accumulator invariants on both sides + uniqueness of fixed-length little-endian representations); (3) hint_bit_pack(hint_bit_unpack(y)) = y for every accepted hint section, and acceptance implies strictly "
        "increasing (hence non-repeating) indices per polynomial, non-decreasing counts at most omega, and zero padding (lock-step induction over decoder and encoder loops); (4) the other direction: hint_bit_unpack(hint_bit_pack(h)) = h for every 0/1 hint with at most omega ones, and for each parameter set sig_decode(sig_encode(c~, z, h)) = (c~, z, h) for every in-range triple, the encoding having signature length and byte entries - so both codecs are bijections between well-formed values and accepted strings. Reduced-parameter hint tables by kernel evaluation are "
        "kept as labelled tests. On every run the same facts are cross-checked by execution against a bit-level FIPS 204 reference: decode/re-encode of honest and forged signatures, every class of hint malformation, range-end vectors "
        "and random strings for each (a,b) in use, exhaustive reduced-parameter enumeration, key codecs.",
   note=TB + "checks/ref/mldsa.py implements Algorithms 9-21 bit by bit (IntegerToBits / BitsToBytes), independent of the crate's streaming accumulators.",
   tech="Lean 4 round-trip / bijection theorems for sig_decode/sig_encode, bit_pack/bit_unpack and the hint codec (accumulator invariants, induction) + differential execution against a bit-level reference"),
 'C09': dict(cat='proof', ref='DESIGN 5 C09',
   text="Lean theorems for every byte string (both build modes): every byte string of public-key length deserialises and serialising the resulting struct returns the same bytes (public_key_bytes_round_trip); every private-key byte string that "
        "deserialisation accepts is returned byte for byte by serialising the resulting struct (private_key_bytes_round_trip). Both go through the NTT-domain representation held in the structs: the butterflies are congruent mod q to exact "
        "integer specifications inside the overflow envelopes, the inverse specification undoes the forward one (255 table pairs by kernel evaluation), Montgomery factors cancel, the canonical representative equals the small original "
        "coefficient, and the byte codecs are mutually inverse (C08). And the third sentence: for every seed, both generated keys serialise and deserialising those bytes returns the same structs, field by field (generated_keys_round_trip_to_the_same_structs), so the "
        "round-tripped keys sign and verify identically. Also proved: field provenance. On every run struct-level equality of generated versus round-tripped keys and byte round trips are cross-checked against the crate, in both build profiles.",
   note=TB + "struct equality is literal equality of every i32 of every field.",
   tech="Lean 4 proof of both byte round trips through the NTT (congruence to exact specs, inverse-undoes-forward, codec bijection) + struct-exact differential round trips of generated keys"),
 'C10': dict(cat='proof', ref='DESIGN 5 C10',
   text="Lean theorems for all byte strings (repaired tree): whatever bit_unpack accepts lies in [-a, b]; every private key accepted by sk_decode / expand_private has all s1, s2 coefficients in [-eta, eta] and t0 in [-2^12+1, 2^12], "
        "which are exactly the ranges sk_encode's self-checks demand; sk_decode never faults on any byte string of private-key length (accumulator-invariant induction over the bytes: temp < 2^bit_index, bit_index < bitlen after each byte, so no shift, subtraction or index can fault). The pinned-tree definition is refuted by kernel evaluation on a concrete accepted field (F1) and the repaired one rejects it. Both directions of the property are a theorem: for each parameter set and every byte string of private-key length, sk_decode returns Ok exactly when every bitlen(2 eta)-bit field of the s1 and s2 sections is at most 2 eta, and Err otherwise (sk_decode_accepts_exactly_the_in_range_keys). "
        "Execution over every out-of-range field value at the structural position classes, multi-field and random strings cross-checks model and crate on every run.",
   note=TB + "F1 was a genuine defect, repaired in /repo by fix: 1e88610.",
   tech="Lean 4 proof by unfolding the decoder + kernel-evaluated refutation of the pinned definition + per-field differential execution"),
 'C11': dict(cat='proof', ref='DESIGN 5 C11',
   text="Lean theorem for every seed and each parameter set (both build modes): whenever key generation returns (pk, sk), private_to_public_key(sk) = pk as structs - same rho, same tr, same verifier precompute coefficient by coefficient - "
        "and the same for the private key after a serialisation round trip (derived_public_key_is_the_generated_one). Equal structs serialise to the same bytes and make the same verification decision on every input; with C09 the keys obtained "
        "by generation, deserialisation and derivation are interchangeable. Proof: mont_reduce(to_mont(x)) = x mod q, mat_vec_mul maps congruent vectors to congruent vectors, the inverse NTT returns canonical residues so congruent inputs "
        "give equal outputs, s2 is recovered exactly. Also proved: the derivation reads neither K nor t0. On every run derived and generated structs are compared field by field against the crate, with equal verification decisions.",
   note=TB + "F2 (assertion on t0 in derivation) was a genuine defect, repaired in /repo by fix: 0639504.",
   tech="Lean 4 proof that the derived struct equals the generated one (congruence through mat_vec_mul and the inverse NTT) + struct-level differential execution"),
 'C13': dict(cat='proof', ref='DESIGN 5 C13',
   text="Proof for the whole verification path + partial proof elsewhere + hostile-input execution. Proved in Lean for all inputs and both build modes: expand_public followed by verify / hash_verify / _internal_verify never panics on ANY "
        "public-key bytes and ANY signature bytes (verification_path_never_panics: sig_decode's accumulator and hint index discipline, sample_in_ball's Hamming-weight assertions, rej_ntt_poly, the lazy NTT pipeline, use_hint within w1_encode's "
        "asserted range, simple_bit_pack filling its slice); the three signing entry points never panic on any private key deserialisation accepted, for every message / context / pre-hash / RNG behaviour, within the first fuel attempts with fuel*l <= 65535 (signing_never_panics: expand_mask, commitment pipeline, high_bits/w1_encode, c*s1/c*s2/c*t0 through mont_reduce and inv_ntt, partial_reduce32/low_bits/make_hint inside their domains, every assertion of sig_encode and hint_bit_pack implied by the acceptance tests); private-key deserialisation never faults; scalar kernels on their domains; the inverse NTT on every vector that fits partial_reduce32; all six entry points on over-long contexts; "
        "keygen and both signers on every failing generator; range self-checks cannot fire on accepted keys; derivation ignores t0. The three pinned-tree panics (F1, F2, F3) are refuted on frozen definitions / removed. key generation (seeded, and RNG-driven for every generator behaviour) and public-key derivation from any accepted private key never panic and return well-formed keys. into_bytes of a key obtained from any (accepted) byte string or from key generation never panics (serialisation_never_panics, through the NTT inversion identity mod q). Every public entry point named in the property is covered by a theorem; hostile-input execution runs on every check in the checked build on random and constructed hostile inputs (random pk/sk/sig, accepted-but-dishonest keys, edited t0, forgeries). Fourth session: a crafted accepted private key that exhausts the signer's 16-bit rejection counter was found (F4: panic in checked builds, no return in release builds) and repaired (fix 322a92d: the signer returns an error); its witness runs first on every run. The signing no-panic theorem keeps the hypothesis fuel*l <= 65535; beyond it the repaired crate returns Err (observed on the witness, not proved).",
   note=TB + "the verification theorem assumes of the hash oracles only that they return as many bytes as requested; the model's samplers read a finite XOF prefix, so its extra outcome Fault.fuel is allowed by the theorem and is not a crate behaviour. residual: more than 65535/l consecutive rejections would overflow the u16 attempt counter (probability below 2^-256).",
   tech="Lean 4 no-fault theorems in checked mode + panic-oracle execution of the checked build on hostile inputs"),
 'C18': dict(cat='proof', ref='DESIGN 5 C18, 3.2',
   text="Lean theorems (all inputs, both build modes): the repaired inverse NTT never overflows i32 and returns canonical residues for every input vector within +-2143289343 - in particular for every unreduced output of mat_vec_mul, "
        "adversarial or not - by a per-layer magnitude invariant; the pinned-tree definition overflows on a constant vector of magnitude 2^23 (F3, kernel evaluation); every generated zeta is a canonical residue; the forward transform, to_mont, mat_vec_mul and the verify / sign / keygen pipelines cannot overflow on their call-site envelopes. "
        "Congruence to the ring product is a theorem too: for every c and every vector s with coefficients up to 2^19, ntt(c) . to_mont(ntt(s)) through mont_reduce and inv_ntt returns canonical residues congruent to c*s_i in Z_q[X]/(X^256+1) "
        "(challenge_times_secret_is_the_ring_product); for every canonical matrix row representing polynomials a_j and every such vector y, transform / multiply-accumulate / inverse transform returns sum_j a_j*y_j (matrix_row_times_vector_is_the_ring_sum). "
        "Proof: the butterflies are congruent to exact specifications, which evaluate the polynomial at 256 roots of X^256+1 (table = tree of square roots, kernel evaluation), evaluation is multiplicative, the inverse undoes the forward transform. "
        "On every run the crate is compared with Algorithms 41/42 and the schoolbook product in big integers on basis polynomials x scalars, every call-site range with extremal sign patterns, and the F3 family.",
   note=TB + "F3 was a genuine defect, repaired in /repo by fix: 4f7cc8d.",
   tech="Lean 4 proof: magnitude invariants per butterfly layer (no overflow) + congruence of the pipelines to the negacyclic product via evaluation at roots of X^256+1 + kernel-evaluated refutation of the pinned tree + differential execution against schoolbook multiplication"),
 'C16': dict(cat='other', ref='DESIGN 5 C16',
   text="Thin model + observation. Lean (decide over the declaration inventory regenerated from src/types.rs, plus layout arithmetic for all K, L): every struct reachable from the key types derives Zeroize and ZeroizeOnDrop, skips no "
        "field, has only u8 / i32 / struct-array leaves, and the fields tile the object exactly (no padding byte outside a zeroised field). What the zeroize derive and the compiler really do is not modelled; it is observed on every run: "
        "each key object (generated, round-tripped, deserialised, derived; all sets; both profiles) is dropped in place and all size_of bytes are read back - zero non-zero bytes, size_of equal to the model layout.",
   note="Trusted: Lean kernel for the inventory theorems; the translator's struct parser; the zeroize crate; that reading the storage after ManuallyDrop::drop observes what a later reader of that memory would see.",
   tech="Lean 4 decide over a regenerated declaration inventory + layout arithmetic + post-drop memory observation"),
 'C17': dict(cat='other', ref='DESIGN 5 C17',
   text="Finite model + exhaustive builds. Lean (decide over the cfg-gate inventory regenerated from Cargo.toml and src/*.rs, for all 28 configurations): gates sit only on parameter-set modules, the OsRng import and its three users "
        "(same predicate), the dudect entry point and test modules; none inside the algorithmic modules; at least one set module enabled; OS-RNG wrappers are single delegating calls. rustc's lints and name resolution are not modelled; "
        "all 28 configurations are really built (cargo check with the crate's deny(warnings, dead_code, ..)) on every run, and a known-answer digest program is built and run per configuration and compared with the default one.",
   note="Trusted: Lean kernel for the inventory theorems; the translator's cfg scanner; cargo/rustc offline determinism. Feature verif-hooks is outside the property's matrix.",
   tech="Lean 4 decide over a regenerated cfg inventory x 28 configurations + 28 real builds + per-configuration known-answer digests"),
 'C14': dict(cat='proof', ref='DESIGN 5 C14, 3.6, 4.5',
   text="Partial proof + exact trace observation. Proved in Lean (source level): over the inventory of every control construct in the constant-time scope, regenerated on every run, each construct whose guard mentions non-public data "
        "(or that is an early-exit adaptor, loop exit or `?`), and each index expression or division whose index / divisor mentions non-public data, is one of twenty-two listed exceptions and the list is tight; the CTEST neutralisations make trip counts input-independent in the model (three-byte and half-byte samplers never "
        "reject, a signing attempt never restarts, and sign_internal in test mode returns after exactly one pass for every key, message and random value: ctest_sign_is_single_pass). What rustc/LLVM emit cannot be exhibited by the model: observed on every run as exact equality of edge sequences and (load|store, size, address) sequences of the optimised build, "
        "instrumented in every crate, across RNG outputs for the whole dudect pipeline (3 sets) and across secret vectors for 20 kernel groups; three sensitivity controls must differ.",
   note="Trusted: Lean kernel; the translator's construct scanner and its per-function table of public variables; LLVM sanitizer-coverage callbacks as the observation of control flow and addresses; same-process comparison (one ASLR layout).",
   tech="Lean 4 decide over a regenerated leak-site inventory + CTEST no-rejection lemmas + sanitizer-coverage edge/address trace equality"),
}

ORDER = ['C%02d' % i for i in range(1, 19)]


# whole-function theorems against Spec/* (a transcription of FIPS 204 that mentions nothing of the crate); appended to the claim text
LITERAL = {
 'C06': "Literal specification (Props/C06b): the same injectivity / disjointness facts read on the formatted messages exactly as Spec.sign / verify / hashSign / hashVerify (Algorithms 2-5 as written) build them, for contexts of at most 255 bytes; the three OIDs of Spec.oidAndDigest are pairwise different and of equal length.",
 'C18': "Literal specification (Props/C18c): the standard's own transforms multiply in Z_q[X]/(X^256+1): Spec.invNtt(Spec.ntt a ∘ Spec.ntt b) is the canonical representative of the schoolbook product reduced by X^256 = -1, for all a, b.",
 'C09': "Literal specification (Props/C09d): on Spec/* alone, pkEncode(pkDecode(pk)) = pk for every byte string of public-key length (so Algorithm 23 is injective) and skEncode(skDecode(sk)) = sk for every private-key string whose s1, s2 sections decode into [-eta, eta]; conversely pkDecode(pkEncode(rho, t1)) = (rho, t1) and skDecode(skEncode(..)) returns its six arguments on in-range inputs: Algorithms 22/23 and 24/25 are mutually inverse.",
 'C05': "Literal specification (Props/C05c): the same two collision theorems stated on Spec.verify / Spec.hashVerify (Algorithms 3 / 5 as written), with no reference to the crate: two accepted interpretations of one signature, one tuple accepted under two public-key byte strings, or two accepted signature strings that differ only in the hint section (on Spec.verifyInternal) exhibit a pre-hash or SHAKE256 collision.",
 'C11': "Literal specification (Props/C11c): derived_public_key_bytes_are_the_standards - whenever Spec.keyGenInternal(xi) = (pk, sk), deserialising sk succeeds, private_to_public_key succeeds and the derived key serialises to exactly pk.",
 'C07': "Literal specification (Props/C02d, C03e): the four entry points equal Spec.verify / hashVerify / sign / hashSign (Algorithms 2-5 as written) for every context length; these are executed on every run at the lengths around the limit against the crate.",
 'C01': "Literal specification (Props/C01d): fips_204_signatures_verify_as_written - carried through the crate by the three whole-function theorems, the round trip holds of the transcription of the standard itself: "
        "whenever Spec.keyGenInternal(xi) = (pk, sk) and Spec.signInternal(skDecode sk, M', rnd) = sigma, Spec.verifyInternal(pk, M', sigma) = true, for every seed, formatted message, rnd and oracle pair with SHAKE's prefix property; and the same for Algorithms 2+3 and 4+5 (ml_dsa_sign_then_verify_as_written, hash_ml_dsa_sign_then_verify_as_written); fips_204_signatures_verify_for_the_executed_shake / hash_ml_dsa_sign_then_verify_for_the_executed_hashes: the same with no hypothesis on the hash functions, for the SHAKE / SHA-2 the model driver executes (Lemmas/OracleReal proves OracleOk, OraclePrefix, Spec.WF of them).",
 'C02': "Literal specification (Props/C02c): verification_is_fips_204_algorithm_8_as_written - from the public-key bytes and the signature bytes, expand_public + verify_internal return exactly the Boolean of Spec.verifyInternal "
        "(Algorithms 8, 21, 23, 27, 28, 29, 30, 32, 35-42 and Table 1 transcribed on explicit bit strings and XOF streams), for every input, both build modes. The transcription itself is executed on every run (driver operations spec_verify / spec_sign / spec_keygen) against the crate. Props/C02d: verify and hash_verify are Algorithms 3 and 5 as written (Spec.verify / Spec.hashVerify: context rejection for every context length, M' formatting, OID / digest table), from the key bytes.",
 'C03': "Literal specification (Props/C03c, C03d): sign_internal_is_Sign_internal_as_written - for every accepted private-key byte string, message, context, pre-hash input and rnd, sign_internal on the struct expand_private built "
        "returns exactly the signature bytes Spec.signInternal (Algorithm 7 line by line, on Algorithms 25, 32, 34, 41, 42, 36-39, 29, 28, 26, 20) computes from the key bytes, within the 16-bit counter's range; expand_mask_is_ExpandMask "
        "(uses that a shorter SHAKE256 request is a prefix of a longer one). Props/C03e: try_sign_with_rng and try_hash_sign_with_rng are Algorithms 2 and 4 as written (Spec.sign / Spec.hashSign) for every context length and every generator that delivers rnd.",
 'C04': "Literal specification (Props/C04c): keygen_is_algorithm_6_as_written - for every seed, key generation followed by serialisation returns the byte strings of Spec.keyGenInternal "
        "(Algorithm 6 on Algorithms 30-33, 41, 42, 35, 22, 24, 16, 17 as transcribed), so the Lean specification no longer shares sampler or encoder code with the model. Props/C04d: try_keygen_with_rng is Algorithm 1 as written (Spec.keyGen).",
 'C08': "Props/C08d: Spec.sigDecode(Spec.sigEncode(c~, z, h)) = (c~, z, h) on well-formed triples and Spec.sigEncode(Spec.sigDecode(sigma)) = sigma on every accepted string - the standard's signature codec, as transcribed, is a bijection; likewise Spec.hintBitUnpack(Spec.hintBitPack h) = h and Spec.hintBitPack(Spec.hintBitUnpack y) = y (Algorithms 20 / 21). Literal specification (Props/C08c): bit_pack / bit_unpack / simple variants are Algorithms 16-19 on explicit bit strings, hint_bit_pack / hint_bit_unpack are Algorithms 20 / 21, sig_encode / sig_decode are Algorithms 26 / 27, for all inputs.",
 'C10': "Literal specification (Props/C10c): sk_decode returns Ok iff every coefficient of Algorithm 25's s1, s2 (Spec.skDecode on the bytes) lies in [-eta, eta], and then returns exactly Algorithm 25's tuple.",
}

def main():
    props = [json.loads(l) for l in open(os.path.join(VERIF, 'properties.jsonl'))]
    checks = []
    import sys
    sys.path.insert(0, os.path.join(VERIF, 'checks'))
    import core
    for pid in ORDER:
        if pid in CLAIMS:
            c = dict(CLAIMS[pid])
            if pid in LITERAL:
                c['text'] += ' ' + LITERAL[pid]
                c['tech'] += ' + whole-function equality with a literal Lean transcription of the FIPS 204 algorithms (Spec/*)'
            if pid in core.TIES:
                mods = ', '.join(core.TIES[pid])
                c['text'] += (" Source tie (Lemmas/SrcTie: " + mods + "): every per-coefficient comprehension, butterfly, comparison and index expression of the hand-modelled functions this property runs through "
                              "is translated from the current source on every run (Gen/Exprs) and proved to be what the model computes there - a skeleton equation closed by rfl plus one equality per expression, up to fault-site names.")
                c['tech'] += " + translated source expressions (comprehensions, butterflies, decoder comparisons) proved equal to the model's (SrcTie)"
            if pid in core.SHAPES:
                c['text'] += (" Statement-level tie (Gen/Shapes, Lemmas/SrcTie/Shape*): a fingerprint of the comment-free text of every hand-modelled function this property runs through is regenerated "
                              "on every run and must equal the one of the text the model was validated against (one rfl theorem per function; no mathematical content, a checked pin).")
                c['tech'] += " + fingerprints of the hand-modelled functions' text pinned by theorems (Shape*)"
            checks.append({
                'property_id': pid,
                'quick_cmd': f'python3 checks/run.py {pid} --tier quick',
                'thorough_cmd': f'python3 checks/run.py {pid} --tier thorough',
                'evidence_file': f'evidence/{pid}.json',
                'replay_cmd_template': 'python3 checks/run.py replay {path}',
                'engine': 'lean4-model+translator+correspondence',
                'level_claimed': {'category': c['cat'], 'text': c['text'], 'design_ref': c['ref']},
                'level_note': c['note'],
                'technique': c['tech']})
    claimed = sorted(CLAIMS)
    man = {
        'version': 1,
        'setup_cmd': 'cd /verif && python3 checks/run.py setup',
        'hooks': {'guard': 'verif-hooks',
                  'enable': 'cargo build --features verif-hooks (the harness crate /verif/harness depends on /repo by path with features verif-hooks,dudect)',
                  'baseline_off_cmd': 'cd /repo && cargo test --workspace --no-fail-fast --offline',
                  'source_commits': ['f757f8b', '1fa9f27'], 'add_only': True},
        'engines': [
            {'name': 'lean4-model', 'path': 'lean/', 'serves_properties': claimed, 'kind_free_text': 'Lean 4 model of the crate (Impl), generated kernels/constants/decisions (Gen), property theorems (Props)'},
            {'name': 'translator', 'path': 'translator/', 'serves_properties': claimed, 'kind_free_text': 'Rust-subset to Lean translator; regenerates Gen/*.lean from /repo on every run'},
            {'name': 'harness', 'path': 'harness/', 'serves_properties': claimed, 'kind_free_text': 'rust_exec: the real crate in-process over a line protocol, checked and release profiles'},
            {'name': 'orchestrator', 'path': 'checks/', 'serves_properties': claimed, 'kind_free_text': 'generators, Python FIPS 204 reference oracle, correspondence diff, evidence'}],
        'checks': checks,
        'not_applicable': [{'property_id': p['id'], 'reason': 'not claimed yet: its check is still under construction (DESIGN section 9, order of work)'}
                           for p in props if p['id'] not in CLAIMS],
        'notes': 'See DESIGN.md. Genuine defects found on the pinned tree (F1-F4) are recorded in known_findings.json; all four are repaired in /repo by fix: commits.'}
    json.dump(man, open(os.path.join(VERIF, 'MANIFEST.json'), 'w'), indent=1)
    print('claimed:', claimed)


if __name__ == '__main__':
    main()
