#!/usr/bin/env python3
"""Makes corpus/bucket_edges.json: for every parameter set and every Decompose bucket edge `(2k+1) gamma2` (k = 0 .. (q-1)/(2 gamma2) - 1),
a message whose honest signature (fixed key, empty context, rnd = 0) has, in its accepted attempt, a coefficient of `w - c s2 + c t0`
exactly on that edge (r0 = +gamma2, the last value of bucket k): the place where a rounding constant, a shift or a reciprocal that is one
bit short in Decompose / HighBits / MakeHint / UseHint first goes wrong (about 1e-4 per signature and edge).
Found with the Lean model's `sign_probe` (Exec/Main.lean, a search aid).  The entries are only *inputs*: the expected signature bytes
come from the Python FIPS 204 reference at check time, so the corpus cannot cause a false alarm.
Usage: python3 checks/mk_corpus_edges.py [max-messages-per-set]"""
import json, os, re, sys
sys.path.insert(0, os.path.dirname(os.path.abspath(__file__)))
import core

G2 = {'44': 95232, '65': 261888, '87': 261888}
Q = 8380417


def main():
    cap = int(sys.argv[1]) if len(sys.argv) > 1 else 48000
    xi = '5a' * 32
    out = {'xi': xi, 'ctx': '', 'rnd': '00' * 32, 'note': __doc__.split('\n')[0], 'cases': {}}
    for s, g2 in G2.items():
        nk = (Q - 1) // (2 * g2)
        found = {}
        start = 0
        while len(found) < nk and start < cap:
            msgs = [(start + i).to_bytes(8, 'little').hex() for i in range(16000)]
            res = core.run_stream([core.MODEL, '--mode', 'release'], [f"sign_probe {s} gen:{xi} {m} - {'00' * 32}" for m in msgs])
            for m, r in zip(msgs, res):
                mm = re.search(r'rredges=\[([-\d,]*)\]', r)
                if mm and mm.group(1):
                    for k in mm.group(1).split(','):
                        found.setdefault(int(k), m)
            start += 16000
            print(s, 'messages', start, 'edges found', len(found), '/', nk, 'missing', [k for k in range(nk) if k not in found], flush=True)
        out['cases'][s] = {str(k): found[k] for k in sorted(found)}
    with open(os.path.join(core.VERIF, 'corpus', 'bucket_edges.json'), 'w') as f:
        json.dump(out, f, indent=1)


if __name__ == '__main__':
    main()
