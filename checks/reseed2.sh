#!/bin/bash
# usage: reseed2.sh <seed-dir-name> <prop>...   run the named properties' quick checks against one kept seeded change
# (applied to /repo's working tree and undone straight afterwards); prints how each check reports it
cd /repo && git diff --quiet || { echo "repo dirty"; exit 2; }
name=$1; shift
git -C /repo apply /verif/seeded/$name/patch.diff || { echo "$name: PATCH DOES NOT APPLY"; exit 2; }
for p in "$@"; do
  r=$(cd /verif && timeout 1800 python3 checks/run.py $p --tier quick 2>&1 | grep -E "VIOLATION" | head -2 | tr '\n' ' ')
  if [ -z "$r" ]; then echo "$name / $p: MISSED"; elif echo "$r" | grep -q "no-failing-input-found"; then echo "$name / $p: broken obligations only: ${r:0:160}"; else echo "$name / $p: caught with a failing input: ${r:0:160}"; fi
done
git -C /repo checkout -- .
cd /verif && python3 translator/gen.py > /dev/null
git -C /verif checkout -- evidence
